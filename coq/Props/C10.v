(* C10 — a participant's contribution can only come from that participant. *)
From Coq Require Import String List NArith ZArith Bool.
Require Import Fsm.EngineDefs Fsm.Types Fsm.Actions Fsm.Provider Node.Types Node.Process Node.Facts.
Import ListNotations.

(* partial statement (the part that holds after the repair of the impersonation defect):
   whenever the node accepts a board message that reaches the round FSM and names a participant,
   the message's signature verified under the key registered for its sender AND the participant
   named in the request is the one registered for that sender.
   Not covered (open finding, refutation witnesses are replayed by the harness): the signature
   covers the payload only, so a genuine message can be re-posted under another round identifier
   or another event name of the same request shape. *)
Theorem C10_accepted_contribution_is_authentic_partial :
  forall put now st m req pid h o,
  ns_skip st = false ->
  m_event m <> ev_sig_init -> m_event m <> ev_sig_reconstructed -> m_event m <> ev_sig_recon_failed ->
  m_req m = MFsm req -> req_pid req = Some pid ->
  process_message put now {| h_st := st; h_tr := [] |} m = ROk h (Some o) ->
  (exists p, round_payload st (m_round m) p /\ valid_sig p m) /\
  (exists p', registered_as p' (m_sender m) pid).
Proof. exact accepted_contribution_is_authentic. Qed.
Print Assumptions C10_accepted_contribution_is_authentic_partial.

(* the same for EVERY accepted message (whether or not it produces an operation) of a round that is
   in progress - neither cancelled nor timed out: its signature verified under its sender's registered
   key, and the participant it names is the one registered for that sender.  So within a round the
   status and data recorded for participant P change only in response to messages signed with P's
   own key. *)
Require Import Node.Authentic.
Theorem C10_accepted_message_is_authentic :
  forall put now st m req pid h x,
  ns_skip st = false ->
  m_event m <> ev_sig_init -> m_event m <> ev_sig_reconstructed -> m_event m <> ev_sig_recon_failed ->
  m_req m = MFsm req -> req_pid req = Some pid ->
  in_progress st (m_round m) ->
  process_message put now {| h_st := st; h_tr := [] |} m = ROk h x ->
  (exists p, round_payload st (m_round m) p /\ valid_sig p m) /\
  (exists p', registered_as p' (m_sender m) pid).
Proof. exact accepted_message_is_authentic. Qed.
Print Assumptions C10_accepted_message_is_authentic.

(* the second sentence of the property - "a signed message is effective only for the round and
   protocol step its author produced it for" - is FALSE of the code (open findings
   C10-cross-round-replay, C10-cross-event-replay; the harness replays both on real nodes, where the
   model agrees with the implementation): the signature covers the payload bytes only.  Witnesses
   on a concrete node with two rounds proposed to the same participants: the very bytes and
   signature of a confirmation of round 8 are accepted in round 9 ... *)
Require Import Node.ReplayRefuted.
Theorem C10_effective_only_for_its_round_refuted :
  exists st m m', same_signed_bytes m m' /\ m_round m <> m_round m' /\ m_event m = m_event m' /\
                  accepted st m /\ accepted st m'.
Proof. exact effective_only_for_its_round_refuted. Qed.
Print Assumptions C10_effective_only_for_its_round_refuted.

(* ... and, under another event name of the same request shape, in round 8 itself ... *)
Theorem C10_effective_only_for_its_step_refuted :
  exists st m m', same_signed_bytes m m' /\ m_event m <> m_event m' /\ m_round m = m_round m' /\
                  accepted st m /\ accepted st m'.
Proof. exact effective_only_for_its_step_refuted. Qed.
Print Assumptions C10_effective_only_for_its_step_refuted.

(* ... where it cancels, in its author's name, the round the author agreed to *)
Theorem C10_replayed_confirmation_cancels_the_round :
  same_signed_bytes genuine replayed_event /\ m_event genuine <> m_event replayed_event /\
  m_round genuine = m_round replayed_event /\
  accepted two_rounds replayed_event /\
  dstate_after two_rounds genuine = Some "state_sig_proposal_await_participants_confirmations"%string /\
  dstate_after two_rounds replayed_event = Some "state_sig_proposal_canceled_by_participant"%string.
Proof. exact cross_event_replay_accepted. Qed.
