(* C10 — a participant's contribution can only come from that participant. *)
From Coq Require Import String List NArith ZArith Bool.
Require Import Fsm.EngineDefs Fsm.Types Fsm.Actions Fsm.Provider Node.Types Node.Process Node.Facts.
Import ListNotations.

(* partial statement (the part that holds after the repair of the impersonation defect):
   whenever the node accepts a board message that reaches the round FSM and names a participant,
   the message's signature verified under the key registered for its sender AND the participant
   named in the request is the one registered for that sender.
   Not covered (open finding, refutation witnesses are replayed by the harness): the signature
   covers the payload only, so a genuine message can be re-posted under another round identifier
   or another event name of the same request shape. *)
Theorem C10_accepted_contribution_is_authentic_partial :
  forall put now st m req pid h o,
  ns_skip st = false ->
  m_event m <> ev_sig_init -> m_event m <> ev_sig_reconstructed -> m_event m <> ev_sig_recon_failed ->
  m_req m = MFsm req -> req_pid req = Some pid ->
  process_message put now {| h_st := st; h_tr := [] |} m = ROk h (Some o) ->
  (exists p, round_payload st (m_round m) p /\ valid_sig p m) /\
  (exists p', registered_as p' (m_sender m) pid).
Proof. exact accepted_contribution_is_authentic. Qed.
Print Assumptions C10_accepted_contribution_is_authentic_partial.

(* the same for EVERY accepted message (whether or not it produces an operation) of a round that is
   in progress - neither cancelled nor timed out: its signature verified under its sender's registered
   key, and the participant it names is the one registered for that sender.  So within a round the
   status and data recorded for participant P change only in response to messages signed with P's
   own key. *)
Require Import Node.Authentic.
Theorem C10_accepted_message_is_authentic :
  forall put now st m req pid h x,
  ns_skip st = false ->
  m_event m <> ev_sig_init -> m_event m <> ev_sig_reconstructed -> m_event m <> ev_sig_recon_failed ->
  m_req m = MFsm req -> req_pid req = Some pid ->
  in_progress st (m_round m) ->
  process_message put now {| h_st := st; h_tr := [] |} m = ROk h x ->
  (exists p, round_payload st (m_round m) p /\ valid_sig p m) /\
  (exists p', registered_as p' (m_sender m) pid).
Proof. exact accepted_message_is_authentic. Qed.
Print Assumptions C10_accepted_message_is_authentic.
