(* C08 — a round's state is a function of its own sub-log (frame part). *)
From Coq Require Import String List NArith ZArith Bool.
Require Import Fsm.EngineDefs Fsm.Types Fsm.Actions Fsm.Provider Node.Types Node.Process Node.Frame.
Import ListNotations.

(* frame: for every node state, clock value and board message of round r, whatever the outcome
   (accepted, refused, operation put into the pool), the FSM dump and the signature store the
   node holds for any other round r' are exactly what they were.  (one half of the property; its
   composition with locality into "equal sub-logs give equal round states" is
   C08_round_state_is_function_of_sublog below) *)
Theorem C08_frame :
  forall now st m r', m_round m <> r' -> res_same r' st (node_step now st (InMsg m)).
Proof. exact board_message_frame. Qed.
Print Assumptions C08_frame.

(* determinism over schedules (generic in the step function - the node model's handler of a board
   message is one): two nodes started alike that consumed equally long prefixes of the board hold
   the same state, however polls were batched and whatever was posted in between; a node replaying
   the log from its initial state reaches the state of the node that followed it live *)
Require Import Sys.Quiescence.
Theorem C08_same_prefix_same_state :
  forall (state msg : Type) (step : state -> msg -> state) (init : list state) sched i j si sj ni nj,
  nth_error init i = Some si -> nth_error init j = Some sj -> si = sj ->
  nth_error (nodes _ _ (run _ _ step init sched)) i = Some ni ->
  nth_error (nodes _ _ (run _ _ step init sched)) j = Some nj ->
  snd ni = snd nj -> fst ni = fst nj.
Proof. exact same_prefix_same_state. Qed.
Theorem C08_replay_reaches_live_state :
  forall (state msg : Type) (step : state -> msg -> state) (init1 init2 : list state) sched1 sched2 i j s n1 n2 k,
  nth_error init1 i = Some s -> nth_error init2 j = Some s ->
  nth_error (nodes _ _ (run _ _ step init1 sched1)) i = Some n1 ->
  nth_error (nodes _ _ (run _ _ step init2 sched2)) j = Some n2 ->
  snd n1 = k -> snd n2 = k ->
  firstn k (board _ _ (run _ _ step init1 sched1)) = firstn k (board _ _ (run _ _ step init2 sched2)) ->
  fst n1 = fst n2.
Proof. exact replay_reaches_live_state. Qed.
Print Assumptions C08_replay_reaches_live_state.

(* locality + frame = the sub-log theorem.  For EVERY log (accepted, refused, duplicated and junk
   messages alike, messages of any number of other rounds - their batch proposals included - and any
   clock values) and every node state: what the node holds for round r (dump, signature store, the
   batch sources kept for the round) after the whole log equals what it holds after the
   sub-sequence of round r's messages alone.  No proviso: the ghost store of decoded batch sources
   is kept per round in the model, as the bytes travel inside the round's own payload in the code
   (an earlier version of the model kept one store for all rounds and the theorem had to exclude
   batch proposals of other rounds). *)
Require Import Node.Local.
Theorem C08_round_state_is_function_of_sublog :
  forall r l a b, lagree r a b ->
  lagree r (run_msgs a l) (run_msgs b (sublog r l)).
Proof. exact round_state_is_function_of_sublog. Qed.
Print Assumptions C08_round_state_is_function_of_sublog.

(* hence two logs with the same round-r sub-sequence leave a node with the same round r *)
Theorem C08_same_sublog_same_round :
  forall r l1 l2 a, sublog r l1 = sublog r l2 ->
  ragree r (run_msgs a l1) (run_msgs a l2).
Proof. exact two_nodes_same_sublog_agree. Qed.

(* locality alone: handling a message of round r on two node states that agree on round r (and on
   identity and verification switch) yields the same outcome for round r *)
Theorem C08_process_message_local :
  forall put now a b m, lagree (m_round m) a b ->
  rrel (m_round m) (process_message put now {| h_st := a; h_tr := [] |} m) (process_message put now {| h_st := b; h_tr := [] |} m).
Proof. exact process_message_local. Qed.

(* non-vacuity: two rounds interleaved on one board; round 9 after the whole log is round 9 after
   its own two messages, it exists, and the confirmation moved it *)
Example C08_sublog_example :
  let a := empty_node 2%N 3%N in
  sublog 9%N ex_log = [(777%Z, ex_prop 9%N); (777%Z, ex_confirm 9%N)] /\
  tget' (ns_rounds (run_msgs a ex_log)) 9%N = tget' (ns_rounds (run_msgs a (sublog 9%N ex_log))) 9%N /\
  tget' (ns_rounds (run_msgs a ex_log)) 9%N <> None /\
  tget' (ns_rounds (run_msgs a ex_log)) 9%N <> tget' (ns_rounds (run_msgs a [(777%Z, ex_prop 9%N)])) 9%N.
Proof. exact sublog_example. Qed.
