(* C08 — a round's state is a function of its own sub-log (frame part). *)
From Coq Require Import String List NArith ZArith Bool.
Require Import Fsm.EngineDefs Fsm.Types Fsm.Actions Fsm.Provider Node.Types Node.Process Node.Frame.
Import ListNotations.

(* frame: for every node state, clock value and board message of round r, whatever the outcome
   (accepted, refused, operation put into the pool), the FSM dump and the signature store the
   node holds for any other round r' are exactly what they were.  (partial: the composition into
   "equal sub-logs give equal round states" is decided by the harness' interleaving / restart /
   duplicate / Poll-replay runs, not yet by induction) *)
Theorem C08_frame_partial :
  forall now st m r', m_round m <> r' -> res_same r' st (node_step now st (InMsg m)).
Proof. exact board_message_frame. Qed.
Print Assumptions C08_frame_partial.
