(* C08 — a round's state is a function of its own sub-log (frame part). *)
From Coq Require Import String List NArith ZArith Bool.
Require Import Fsm.EngineDefs Fsm.Types Fsm.Actions Fsm.Provider Node.Types Node.Process Node.Frame.
Import ListNotations.

(* frame: for every node state, clock value and board message of round r, whatever the outcome
   (accepted, refused, operation put into the pool), the FSM dump and the signature store the
   node holds for any other round r' are exactly what they were.  (partial: the composition into
   "equal sub-logs give equal round states" is decided by the harness' interleaving / restart /
   duplicate / Poll-replay runs, not yet by induction) *)
Theorem C08_frame_partial :
  forall now st m r', m_round m <> r' -> res_same r' st (node_step now st (InMsg m)).
Proof. exact board_message_frame. Qed.
Print Assumptions C08_frame_partial.

(* determinism over schedules (generic in the step function - the node model's handler of a board
   message is one): two nodes started alike that consumed equally long prefixes of the board hold
   the same state, however polls were batched and whatever was posted in between; a node replaying
   the log from its initial state reaches the state of the node that followed it live *)
Require Import Sys.Quiescence.
Theorem C08_same_prefix_same_state :
  forall (state msg : Type) (step : state -> msg -> state) (init : list state) sched i j si sj ni nj,
  nth_error init i = Some si -> nth_error init j = Some sj -> si = sj ->
  nth_error (nodes _ _ (run _ _ step init sched)) i = Some ni ->
  nth_error (nodes _ _ (run _ _ step init sched)) j = Some nj ->
  snd ni = snd nj -> fst ni = fst nj.
Proof. exact same_prefix_same_state. Qed.
Theorem C08_replay_reaches_live_state :
  forall (state msg : Type) (step : state -> msg -> state) (init1 init2 : list state) sched1 sched2 i j s n1 n2 k,
  nth_error init1 i = Some s -> nth_error init2 j = Some s ->
  nth_error (nodes _ _ (run _ _ step init1 sched1)) i = Some n1 ->
  nth_error (nodes _ _ (run _ _ step init2 sched2)) j = Some n2 ->
  snd n1 = k -> snd n2 = k ->
  firstn k (board _ _ (run _ _ step init1 sched1)) = firstn k (board _ _ (run _ _ step init2 sched2)) ->
  fst n1 = fst n2.
Proof. exact replay_reaches_live_state. Qed.
Print Assumptions C08_replay_reaches_live_state.
