(* C03 — what gets signed is exactly what was proposed. *)
From Coq Require Import String List NArith ZArith Bool.
Require Import Lib.GoStr Ssz.Sha256 Ssz.Ssz Ssz.Rotation Ssz.RotationProofs Ssz.TasksProofs.
Require Gen.Baked.
Require Node.Types Node.Process Node.Export Node.ExportProofs Node.Reconstructed Node.ExportNode.
Import ListNotations.
Local Open Scope Z_scope.

(* the one expansion function used by the signer, the verifier/reconstruction and the store/export
   (they all call requests.TasksToMessages on the same proposal; the model function below is
   compared with it on every run): an explicit task stands for itself ... *)
Theorem C03_expand_explicit :
  forall lines t p rest msgs,
  tk_payload t = Some p -> tasks_to_messages_in lines rest = BOk msgs ->
  tasks_to_messages_in lines (t :: rest) =
    BOk ({| ms_id := tk_id t; ms_file := tk_file t; ms_payload := p; ms_baked := false |} :: msgs).
Proof. exact expand_explicit. Qed.

(* ... tasks expand independently, in order, nothing dropped or added ... *)
Theorem C03_expand_order_count :
  forall lines a b ma mb,
  tasks_to_messages_in lines a = BOk ma -> tasks_to_messages_in lines b = BOk mb ->
  tasks_to_messages_in lines (a ++ b) = BOk (ma ++ mb).
Proof. exact expand_app. Qed.

(* ... and a baked range 0 <= start <= end <= 18632 expands to one message per position, in order,
   each with the consensus-spec signing root of the validator at that position (C17) *)
Theorem C03_expand_baked :
  forall fuel s e, 0 <= s -> e <= 18632 -> (Z.to_nat (e - s) <= fuel)%nat ->
  exists msgs, baked_range_in Gen.Baked.baked_lines fuel s e = BOk msgs /\ Z.of_nat (length msgs) = Z.max 0 (e - s) /\
    forall k, (k < length msgs)%nat ->
      exists v m, nth_error msgs k = Some m /\
                  parse_int64 (nth (Z.to_nat (s + Z.of_nat k)) Gen.Baked.baked_lines []) = Some v /\
                  ms_payload m = spec_signing_root (Z.to_N v) /\ ms_baked m = true /\
                  ms_id m = nth (Z.to_nat (s + Z.of_nat k)) Gen.Baked.baked_lines [] /\
                  ms_file m = bakedrange_prefix ++ dec_of_Z (s + Z.of_nat k).
Proof. exact baked_range_spec. Qed.
Print Assumptions C03_expand_baked.

(* the payload stored and exported next to the final signature.  `export_signatures` shows, per
   message id of the batch, the FIRST entry of the slot (utils.PrepareSignaturesToDump; compared
   with the real function on every run) ... *)
Theorem C03_export_shows_first_entries :
  forall b out, Node.Export.export_batch b = Some out ->
  map fst out = map fst b /\
  forall id ex, In (id, ex) out -> exists e r, In (id, e :: r) b /\ ex = Node.Export.export_entry e.
Proof. exact Node.ExportProofs.export_batch_spec. Qed.

Theorem C03_export_refuses_iff_some_message_has_no_entry :
  forall b, Node.Export.export_batch b = None <-> exists id, In (id, []) b.
Proof. exact Node.ExportProofs.export_batch_refuses_iff. Qed.

(* ... the proposal files one stub per expanded message (payload, file and id of the expansion, the
   proposer's name) and, the message ids of a batch being distinct and the batch new, each stub is
   the first entry of its slot ... *)
Theorem C03_stubs_of_the_proposal_come_first :
  forall l store batch,
  (forall s, In s l -> Node.Types.rs_batch s = batch) -> NoDup (map Node.Types.rs_msgid l) ->
  (forall s, In s l -> Node.Export.first_entry store batch (Node.Types.rs_msgid s) = None) ->
  forall s, In s l ->
    Node.Export.first_entry (fold_left Node.Process.add_sig l store) batch (Node.Types.rs_msgid s) = Some s.
Proof. exact Node.ExportProofs.fresh_entries_come_first. Qed.

(* ... and whatever reconstructions are saved afterwards, by whomever and in whatever order, no
   participant other than the proposer changes that first entry: the exported payload and file stay
   the proposed ones ... *)
Theorem C03_others_never_change_the_exported_entry :
  forall l store x,
  Node.Export.first_entry store (Node.Types.rs_batch x) (Node.Types.rs_msgid x) = Some x ->
  (forall s, In s l -> Node.Types.rs_batch s = Node.Types.rs_batch x -> Node.Types.rs_msgid s = Node.Types.rs_msgid x ->
             Node.Types.rs_user s <> Node.Types.rs_user x) ->
  Node.Export.first_entry (fold_left Node.Process.add_sig l store) (Node.Types.rs_batch x) (Node.Types.rs_msgid x) = Some x.
Proof. exact Node.ExportProofs.others_never_change_the_export. Qed.

(* ... in general the exported entry is the proposer's latest one for the slot (the stub, signature
   empty, until the proposer's own reconstruction arrives): of the same batch, message and user,
   and either the stub or one of the saved entries.  _partial: that the payload INSIDE the
   proposer's own broadcast equals the proposed one is the node model's reconstruct (C01/C07
   broadcast_of_reconstruction_is_stored) for an honest proposer; a dishonest proposer's broadcast
   is stored as sent (DESIGN 12.7, outside) *)
Theorem C03_exported_entry_is_the_proposers_latest_partial :
  forall l store x,
  Node.Export.first_entry store (Node.Types.rs_batch x) (Node.Types.rs_msgid x) = Some x ->
  Node.Export.first_entry (fold_left Node.Process.add_sig l store) (Node.Types.rs_batch x) (Node.Types.rs_msgid x)
    = Some (Node.ExportProofs.latest x l) /\
  (Node.Types.rs_batch (Node.ExportProofs.latest x l) = Node.Types.rs_batch x /\
   Node.Types.rs_msgid (Node.ExportProofs.latest x l) = Node.Types.rs_msgid x /\
   Node.Types.rs_user (Node.ExportProofs.latest x l) = Node.Types.rs_user x) /\
  (Node.ExportProofs.latest x l = x \/ In (Node.ExportProofs.latest x l) l).
Proof. exact Node.ExportProofs.exported_entry_is_latest. Qed.
Print Assumptions C03_exported_entry_is_the_proposers_latest_partial.

Example C03_export_example :
  Node.ExportProofs.ex_exports
    [Node.ExportProofs.ex_stub 1; Node.ExportProofs.ex_stub 2; Node.ExportProofs.ex_from 2 1 55;
     Node.ExportProofs.ex_from 1 1 55; Node.ExportProofs.ex_from 1 2 66; Node.ExportProofs.ex_from 2 2 77]%N =
  Some [(1%N, {| Node.Export.ex_payload := 101%N; Node.Export.ex_sig := 55%N; Node.Export.ex_file := 1%N |});
        (2%N, {| Node.Export.ex_payload := 102%N; Node.Export.ex_sig := 66%N; Node.Export.ex_file := 2%N |})].
Proof. exact (proj2 Node.ExportProofs.export_example). Qed.

(* the step of the node's processMessage that records a batch proposal (Node/Process.v pm_prop, the
   model of the `SigningProposalStart` branch of node_service.go processMessage): it files exactly
   those stubs - id, file and payload of the expansion, the proposer's name, no signature - so with
   distinct ids and a batch new to the round's store each of them is what the export shows *)
Theorem C03_node_files_the_proposed_stubs_first :
  forall put m h i op batch a b c src tasks h' o,
  String.eqb (Node.Types.m_event m) Fsm.Actions.ev_sgn_start = true -> Node.Types.m_tasks m = Some tasks ->
  NoDup (map Node.Types.mt_id tasks) ->
  (forall t, In t tasks ->
     Node.Export.first_entry (Node.Reconstructed.round_store (Node.Process.h_st h) (Node.Types.m_round m)) batch (Node.Types.mt_id t) = None) ->
  Node.Process.pm_prop put m (Fsm.Types.RStart batch a b c src) h i op = Node.Process.ROk h' o ->
  forall t, In t tasks ->
    Node.Export.first_entry (Node.Reconstructed.round_store (Node.Process.h_st h') (Node.Types.m_round m)) batch (Node.Types.mt_id t)
      = Some (Node.ExportNode.stub_of m batch t).
Proof. exact Node.ExportNode.proposal_files_the_stubs_first. Qed.
Print Assumptions C03_node_files_the_proposed_stubs_first.
