(* C03 — what gets signed is exactly what was proposed. *)
From Coq Require Import String List NArith ZArith Bool.
Require Import Lib.GoStr Ssz.Sha256 Ssz.Ssz Ssz.Rotation Ssz.RotationProofs Ssz.TasksProofs.
Require Gen.Baked.
Import ListNotations.
Local Open Scope Z_scope.

(* the one expansion function used by the signer, the verifier/reconstruction and the store/export
   (they all call requests.TasksToMessages on the same proposal; the model function below is
   compared with it on every run): an explicit task stands for itself ... *)
Theorem C03_expand_explicit :
  forall lines t p rest msgs,
  tk_payload t = Some p -> tasks_to_messages_in lines rest = BOk msgs ->
  tasks_to_messages_in lines (t :: rest) =
    BOk ({| ms_id := tk_id t; ms_file := tk_file t; ms_payload := p; ms_baked := false |} :: msgs).
Proof. exact expand_explicit. Qed.

(* ... tasks expand independently, in order, nothing dropped or added ... *)
Theorem C03_expand_order_count :
  forall lines a b ma mb,
  tasks_to_messages_in lines a = BOk ma -> tasks_to_messages_in lines b = BOk mb ->
  tasks_to_messages_in lines (a ++ b) = BOk (ma ++ mb).
Proof. exact expand_app. Qed.

(* ... and a baked range 0 <= start <= end <= 18632 expands to one message per position, in order,
   each with the consensus-spec signing root of the validator at that position (C17) *)
Theorem C03_expand_baked :
  forall fuel s e, 0 <= s -> e <= 18632 -> (Z.to_nat (e - s) <= fuel)%nat ->
  exists msgs, baked_range_in Gen.Baked.baked_lines fuel s e = BOk msgs /\ Z.of_nat (length msgs) = Z.max 0 (e - s) /\
    forall k, (k < length msgs)%nat ->
      exists v m, nth_error msgs k = Some m /\
                  parse_int64 (nth (Z.to_nat (s + Z.of_nat k)) Gen.Baked.baked_lines []) = Some v /\
                  ms_payload m = spec_signing_root (Z.to_N v) /\ ms_baked m = true /\
                  ms_id m = nth (Z.to_nat (s + Z.of_nat k)) Gen.Baked.baked_lines [] /\
                  ms_file m = bakedrange_prefix ++ dec_of_Z (s + Z.of_nat k).
Proof. exact baked_range_spec. Qed.
Print Assumptions C03_expand_baked.
