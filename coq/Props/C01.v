(* C01 — reconstructed threshold signatures verify under the group key and agree. *)
From mathcomp Require Import all_ssreflect all_algebra.
Require Import Crypto.Lagrange Crypto.Pedersen.
Set Implicit Arguments. Unset Strict Implicit. Unset Printing Implicit Defensive.
Import GRing.Theory.
Local Open Scope ring_scope.

(* over any field F (the scalar field) and any F-module W (the signature group): for a polynomial
   p of size <= t, ANY duplicate-free list of t or more abscissae combines the partial signatures
   p(x) *: h with the weights kyber's RecoverCommit computes to p(0) *: h - the signature of the
   same message under the group key p(0) *: g *)
Theorem C01_recover_valid (F : fieldType) (W : lmodType F) (h : W) (xs : seq F) (p : {poly F}) :
  uniq xs -> (size p <= size xs)%N ->
  \sum_(x <- xs) w0 xs x *: (p.[x] *: h) = p.[0] *: h.
Proof. exact: lagrange0_lmod. Qed.
Print Assumptions C01_recover_valid.

(* hence all subsets and all orders agree: the identical group element, hence the identical 96 bytes *)
Theorem C01_recover_agree (F : fieldType) (xs ys : seq F) (p : {poly F}) :
  uniq xs -> uniq ys -> (size p <= size xs)%N -> (size p <= size ys)%N ->
  \sum_(x <- xs) w0 xs x * p.[x] = \sum_(y <- ys) w0 ys y * p.[y].
Proof. exact: lagrange0_agree. Qed.
Print Assumptions C01_recover_agree.

(* with the shares produced by the key generation (sum of the dealers' deals): any t of them sign
   under the joint key *)
Theorem C01_shares_of_the_ceremony_sign (F : fieldType) (J : finType) (f : J -> {poly F}) (t : nat)
        (W : lmodType F) (h : W) (xs : seq F) :
  (forall j, (size (f j) <= t)%N) -> uniq xs -> (t <= size xs)%N ->
  \sum_(x <- xs) w0 xs x *: (share f x *: h) = (joint f).[0] *: h.
Proof. move=> sf ux st; exact: (t_shares_sign sf h ux st). Qed.
Print Assumptions C01_shares_of_the_ceremony_sign.
