(* C07 — every batch signed by t honest participants is reconstructed on every node.
   Liveness is stated as safety at quiescence: nodes are deterministic consumers of one append-only
   board (C07_quiescent_nodes_hold_the_fold), so "whatever the delivery order" is "whatever the
   order of the board"; the theorems on the signing round then quantify over ARBITRARY input lists
   (any events, any requests, any interleaving) in which the honest participants' own messages are
   well-formed answers.  round_step is the function the node drives the round with; it is compared
   with the real FSM, and the node model with real nodes, on every run (system-level runs over all
   orders of two proposals and six answers, n = 3, t = 2). *)
From Coq Require Import String List NArith ZArith Bool.
Require Import Fsm.EngineDefs Fsm.Types Fsm.Engine Fsm.Actions Fsm.Provider Fsm.SigningFacts Fsm.SigningLive Sys.Quiescence.
Import ListNotations.
Local Open Scope Z_scope.

(* a node that has consumed the whole board - after any schedule of postings and deliveries - holds
   exactly the fold of its step function over the board *)
Theorem C07_quiescent_nodes_hold_the_fold :
  forall (state msg : Type) (step : state -> msg -> state) (init : list state) (sched : list (action msg)),
  Forall2 (fun s0 n => snd n = length (board _ _ (run _ _ step init sched)) ->
                       fst n = fold_left step (board _ _ (run _ _ step init sched)) s0)
          init (nodes _ _ (run _ _ step init sched)).
Proof. exact quiescent_nodes_hold_the_fold. Qed.
Print Assumptions C07_quiescent_nodes_hold_the_fold.

(* a proposal accepted in idle, then ANY list of inputs: if a set H of at least t participants is
   honest (nothing speaks for them except well-formed answers to this batch; their late answers AND
   late failure reports to other batches, the other participants' failures, duplicates, further
   proposals, junk may all be interleaved) and each of them answers, the node collects the batch *)
Theorem C07_proposed_batch_collects :
  forall now p d t H batch pid created tasks src (l : list input),
  Ready p d t -> 0 < t -> t <= Z.of_nat (length (dc_quorum d)) ->
  batch <> 0%N -> tasks <> [] -> 0 <= pid -> is_zero_time created = false -> tasks_valid tasks = true ->
  NoDup H -> t <= Z.of_nat (length H) ->
  (forall i, In i H -> (exists a, qget (dc_quorum d) i = Some a) /\
                       exists req, In (ev_sgn_partial, req) l /\ good_req batch i req) ->
  Forall (honest_only batch H) l ->
  In batch (collected now (mkd st_idle p) ((ev_sgn_start, RStart batch pid created tasks src) :: l)).
Proof. exact proposed_batch_collects. Qed.
Print Assumptions C07_proposed_batch_collects.

(* answers of slow participants: refused while another batch is being signed and in idle, so they
   change nothing *)
Theorem C07_stale_answer_refused :
  forall now p g b b' pid signs created, Aw p g b -> b' <> b ->
  round_step now (mkd st_await p) ev_sgn_partial (RPartial b' pid signs created) = SRej.
Proof. exact stale_answer_refused. Qed.
Theorem C07_answer_at_idle_refused :
  forall now p req,
  round_step now (mkd st_idle p) ev_sgn_partial req = SRej /\ round_step now (mkd st_idle p) ev_sgn_error req = SRej.
Proof. exact answer_at_idle_refused. Qed.
Print Assumptions C07_stale_answer_refused.

(* ... and do not prevent later batches: the collecting answer persists an idle round that can sign
   again (the hypothesis `Ready` of C07_proposed_batch_collects), with the deadline still unarmed *)
Theorem C07_collecting_answer_leaves_ready :
  forall now p g b d t pid signs created part,
  Aw p g b -> Ready p d t ->
  qget (gc_quorum g) pid = Some part -> gp_status part = SgnAwait -> good_req b pid (RPartial b pid signs created) ->
  t <= count_status SgnConfirmed (qset (gc_quorum g) pid (confirm_part part signs created)) ->
  count_status SgnError (qset (gc_quorum g) pid (confirm_part part signs created)) <= Z.of_nat (length (gc_quorum g)) - t ->
  exists p'' entries,
    round_step now (mkd st_await p) ev_sgn_partial (RPartial b pid signs created)
    = SOk (mkd st_idle p'') st_partial_collected (Some (RespSigningProcess b (gc_src g) entries)) /\
    Ready p'' d t.
Proof. exact collecting_answer_leaves_ready. Qed.
Print Assumptions C07_collecting_answer_leaves_ready.

(* the signing deadline is never armed by the code as it is (UpdatedAt of the signing payload is
   never written): established at initialisation, carried by every lemma above *)
Theorem C07_init_not_expired :
  forall ev p created out resp p', TZERO <= created + sgn_deadline ->
  action_sgn_init ev p (RDefault created) = CbOk out resp p' ->
  exists g, p_sgn p' = Some g /\ expired (gc_expires g) (gc_updated g) = false.
Proof. exact init_not_expired. Qed.

(* the second sentence of the property for a FAILURE report (repaired by ffa0973: the report now names
   its batch): a report that names a batch other than the one being signed is refused, nothing is
   persisted - so `honest_only` above allows the honest participants' late failure reports for OTHER
   batches to be interleaved, like their late answers *)
Theorem C07_stale_failure_report_refused :
  forall now p g b b' pid e created, Aw p g b -> b' <> 0%N -> b' <> b ->
  round_step now (mkd st_await p) ev_sgn_error (RSigError pid e created b') = SRej.
Proof. exact stale_failure_report_refused. Qed.
Print Assumptions C07_stale_failure_report_refused.

(* what is left of the former finding `late-error-answer-booked-on-current-batch`: a report written by
   an OLDER version names no batch (0 here) and is judged as before - booked on the batch being signed;
   t correct answers to that batch then collect nothing.  The same report naming its batch (40) is
   refused and the batch is collected, as it is without any report *)
Theorem C07_late_failure_report_examples :
  collected 1000 (mkd st_idle ex_ready) [ex_start41; (ev_sgn_error, RSigError 2 (Some 9%N) 96 0%N); ex_good 41%N 2; ex_good 41%N 0] = [] /\
  collected 1000 (mkd st_idle ex_ready) [ex_start41; (ev_sgn_error, RSigError 2 (Some 9%N) 96 40%N); ex_good 41%N 2; ex_good 41%N 0] = [41%N] /\
  collected 1000 (mkd st_idle ex_ready) [ex_start41; ex_good 41%N 2; ex_good 41%N 0] = [41%N].
Proof. exact late_error_answer_blocks_the_batch. Qed.

(* ---- node level: from "collected" to "stored on every node" ---- *)
Require Import Node.Types Node.Process Node.Reconstructed.
Local Open Scope string_scope.
(* the answer that completes the batch: the node reconstructs from exactly the collected
   contributions of the FSM's response, posts ONE `signature_reconstructed` message carrying exactly
   those signatures, restarts the round for the next batch and saves it; a failing reconstruction
   writes nothing *)
Theorem C07_collecting_answer_is_broadcast :
  forall put now m req h inst i1 batch src parts,
  sender_is_participant (i_payload inst) (m_sender m) req = true ->
  String.eqb (m_event m) ev_sgn_start = false ->
  do_live inst (m_event m) req = FOk i1 st_partial_collected (Some (RespSigningProcess batch src parts)) ->
  match reconstruct (h_st h) (m_round m) (i_payload i1) batch src parts with
  | Some sigs =>
      match do_fresh (dump_of i1) ev_sgn_restart (RDefault now) with
      | FOk i4 _ _ => pm_tail put now m req h inst =
                      ROk (save_fsm (emit h (WSend (broadcast_of h m sigs))) (m_round m) (dump_of i4)) None
      | FErr => pm_tail put now m req h inst = RErr (emit h (WSend (broadcast_of h m sigs)))
      | FPanic => pm_tail put now m req h inst = RPanic
      end
  | None => pm_tail put now m req h inst = RErr h
  end.
Proof. exact collecting_answer_is_broadcast. Qed.
(* every node that accepts that broadcast holds each of its signatures afterwards (under the
   sender's name, in the round the message names - no other round's store changes) *)
Theorem C07_broadcast_signatures_are_stored :
  forall put now st m h' o,
  String.eqb (m_event m) ev_sig_reconstructed = true ->
  process_message put now {| h_st := st; h_tr := [] |} m = ROk h' o ->
  exists l, m_req m = MSigs (Some l) /\ l <> [] /\ o = None /\
    (slots_distinct (stamped m l) = true ->
     forall s, In s (stamped m l) -> holds (round_store (h_st h') (m_round m)) s) /\
    (forall r', r' <> m_round m -> tget' (ns_sigs (h_st h')) r' = tget' (ns_sigs st) r').
Proof. exact reconstructed_message_is_stored. Qed.
(* `reconstruct` yields one signature per message id, so for the broadcast a node actually makes the
   side condition above is met: every signature of it is held by every node accepting it *)
Theorem C07_broadcast_of_reconstruction_is_stored :
  forall put now st0 round p batch src parts sigs st m h' o,
  reconstruct st0 round p batch src parts = Some sigs ->
  String.eqb (m_event m) ev_sig_reconstructed = true -> m_req m = MSigs (Some sigs) ->
  process_message put now {| h_st := st; h_tr := [] |} m = ROk h' o ->
  forall s, In s (stamped m sigs) -> holds (round_store (h_st h') (m_round m)) s.
Proof. exact broadcast_of_reconstruction_is_stored. Qed.
Print Assumptions C07_broadcast_of_reconstruction_is_stored.
