(* C11 — a dealer whose private deal contradicts its public commitments is caught.
   (1) what an addressee accepts (Crypto/DealCheck.v, in the exponent; compared with real machines
   facing a deviating dealer on every run); (2) its error report ends the phase cancelled on a node
   (regenerated DKG table + actionConfirmationError); (3) a cancelled round never becomes ready. *)
From Coq Require Import String List NArith ZArith Bool.
Require Import Crypto.Zr Crypto.DealCheck Crypto.DealCheckProofs.
Require Import Fsm.EngineDefs Fsm.Types Fsm.Engine Fsm.Actions Fsm.Provider Fsm.DkgError Fsm.CancelFinal.
Import ListNotations.
Local Open Scope Z_scope.

(* a deal is accepted exactly when it can be read, is well-formed, carries exactly the broadcast
   commitments (same number, same values) and its share lies on the polynomial they commit to *)
Theorem C11_accept_iff_consistent :
  forall t bc d i, accepts t bc d i = true <->
  dl_fault d = FNone /\ map zr (dl_commits d) = map zr bc /\ zr (dl_share d) = eval_poly bc (i + 1).
Proof. exact accept_iff_consistent. Qed.
Print Assumptions C11_accept_iff_consistent.

(* every kind of deviation is refused: unreadable or malformed, commitments of another length,
   any single differing commitment (first, last, any position k), a share off the polynomial *)
Theorem C11_undecryptable_or_malformed_refused : forall t bc d i, dl_fault d <> FNone -> accepts t bc d i = false.
Proof. exact undecryptable_refused. Qed.
Theorem C11_wrong_length_refused : forall t bc d i, length bc <> length (dl_commits d) -> accepts t bc d i = false.
Proof. exact wrong_length_refused. Qed.
Theorem C11_different_commitment_refused :
  forall t bc d i k, zr (nth k bc 0) <> zr (nth k (dl_commits d) 0) -> accepts t bc d i = false.
Proof. exact different_commitment_refused. Qed.
Theorem C11_share_off_polynomial_refused :
  forall t bc d i, zr (dl_share d) <> eval_poly bc (i + 1) -> accepts t bc d i = false.
Proof. exact share_off_polynomial_refused. Qed.
(* while the honest dealer's deal is accepted *)
Theorem C11_honest_deal_accepted :
  forall coeffs i, accepts (length coeffs) coeffs {| dl_fault := FNone; dl_commits := coeffs; dl_share := eval_poly coeffs (i + 1) |} i = true.
Proof. exact honest_deal_accepted. Qed.

(* the check does not count the coefficients: a polynomial with more coefficients than the threshold,
   announced and dealt consistently, is accepted here (first version of this model had a length test
   the code does not have; corrected after running a higher-degree dealer against real machines) *)
Theorem C11_higher_degree_deal_accepted :
  forall coeffs extra i t,
  accepts t (coeffs ++ [extra])
          {| dl_fault := FNone; dl_commits := coeffs ++ [extra]; dl_share := eval_poly (coeffs ++ [extra]) (i + 1) |} i = true.
Proof. exact higher_degree_deal_accepted. Qed.

(* the addressee reports the error as soon as one deal is refused; a normal answer means every
   deal it received was consistent with its dealer's broadcast commitments *)
Theorem C11_one_bad_deal_is_reported :
  forall t deals i bc d, In (bc, d) deals -> accepts t bc d i = false -> responses_result t deals i = ev_resp_err.
Proof. exact one_bad_deal_is_reported. Qed.
Theorem C11_response_ok_all_consistent :
  forall t deals i, responses_result t deals i = ev_resp_ok ->
  forall bc d, In (bc, d) deals ->
    dl_fault d = FNone /\ map zr (dl_commits d) = map zr bc /\ zr (dl_share d) = eval_poly bc (i + 1).
Proof. exact response_ok_all_consistent. Qed.
Print Assumptions C11_response_ok_all_consistent.

(* on every node the report of a participant still awaited in phase k cancels the phase ... *)
Theorem C11_error_report_cancels_phase :
  forall now k p c pid e created d,
  (k < 4)%N -> p_dkg p = Some c -> qget (dc_quorum c) pid = Some d -> dp_status d = dkg_await k ->
  0 <= pid -> is_zero_time created = false ->
  exists p', round_step now (dmk (st_await_of k) p) (ev_dkg_error k) (RError pid (Some e) created)
             = SOk (dmk (st_cancelled_of k) p') (st_cancelled_of k) None.
Proof. exact error_report_cancels_phase. Qed.
Print Assumptions C11_error_report_cancels_phase.

(* ... and a cancelled round stays cancelled whatever follows: it never becomes signing-ready, so
   the master-key request (the only step that stores a share) is never issued for it *)
Theorem C11_cancelled_forever :
  forall d tr, In (d_state d) cancelled_states -> d_state (run_round d tr) = d_state d.
Proof. exact cancel_final. Qed.
Example C11_cancelled_states_cover :
  In (st_cancelled_of 2) cancelled_states /\ In (st_cancelled_of 3) cancelled_states.
Proof. split; cbn; tauto. Qed.

(* ---- the reinitialisation path: the airgapped machine carries the round's operations out again
   inside ONE reinit operation (Air/Reinit.v; repaired by d24be93: a refusal used to be swallowed) ---- *)
Require Import Air.Reinit Air.ReinitProofs.

(* the reinit operation ends successfully only if EVERY embedded operation of its round was carried
   out (ri_ok for the responses step: every private deal consistent with its dealer's commitments)
   and the round's share is in the database *)
Theorem C11_reinit_success_means_all_accepted :
  forall outer m ops m', handle_reinit outer m ops = (m', true) ->
  (forall o, In o ops -> ri_round o = outer -> ri_ok o = true) /\ mem outer (rm_shares m') = true.
Proof. exact reinit_success_means_all_accepted. Qed.
Print Assumptions C11_reinit_success_means_all_accepted.

(* a refusal before the master-key step - a contradicting private deal at the responses step - ends
   the reinit operation unsuccessfully and leaves no key share for the round *)
Theorem C11_reinit_refusal_stores_no_share :
  forall outer m pre bad post,
  mem outer (rm_shares m) = false ->
  (forall o, In o pre -> ri_round o = outer -> ri_kind o <> IkMaster) ->
  ri_round bad = outer -> ri_ok bad = false ->
  let res := handle_reinit outer m (pre ++ bad :: post) in
  snd res = false /\ mem outer (rm_shares (fst res)) = false.
Proof. exact refusal_before_master_key_stores_no_share. Qed.

(* OPEN FINDING (known_findings: C11 error-report-lost): "the round ends cancelled on every node" fails
   on a node that is still in an earlier phase when the addressee's report arrives - the report of a
   later phase has no route there and is refused, whatever the round holds.  The deviating dealer
   decides the order of its (per-addressee) deal messages, so it can arrange exactly this. *)
Theorem C11_report_of_a_later_phase_refuted :
  forall now k j p req, (k < j)%N -> (j < 4)%N ->
  round_step now (dmk (st_await_of k) p) (ev_dkg_error j) req = SRej.
Proof. exact later_phase_report_refused. Qed.
Print Assumptions C11_report_of_a_later_phase_refuted.
