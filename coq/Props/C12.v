(* C12 — an airgapped machine restarted mid-ceremony and replayed continues identically. *)
From Coq Require Import List Bool.
Require Import Air.Machine Air.MachineProofs.
Import ListNotations.

Section C12.
Variables (seed op vstate out : Type).
Variable v0 : vstate.
Variable handle : seed -> vstate -> op -> vstate * out.   (* any deterministic handlers *)
Variable is_signing : op -> bool.
Hypothesis signing_pure : forall s v o, is_signing o = true -> fst (handle s v o) = v.

(* for every operation sequence (hence every restart point between steps): stop, reopen, replay
   gives back the volatile state, the log and the seed of the machine that never stopped *)
Theorem C12_replay_restores :
  forall s ops,
  let m := fst (feed seed op vstate out handle is_signing true (fresh seed op vstate v0 s) ops) in
  let m' := fst (replay seed op vstate out handle is_signing (restart seed op vstate v0 m)) in
  m_vol _ _ _ m' = m_vol _ _ _ m /\ m_log _ _ _ m' = m_log _ _ _ m /\ m_seed _ _ _ m' = m_seed _ _ _ m.
Proof. exact (replay_restores seed op vstate out v0 handle is_signing signing_pure). Qed.

(* and every later operation is answered identically, with identical resulting state and log -
   by induction this covers any number of restarts *)
Theorem C12_continue_after_restart :
  forall s ops later,
  let m := fst (feed seed op vstate out handle is_signing true (fresh seed op vstate v0 s) ops) in
  let m' := fst (replay seed op vstate out handle is_signing (restart seed op vstate v0 m)) in
  snd (feed seed op vstate out handle is_signing true m' later) = snd (feed seed op vstate out handle is_signing true m later) /\
  m_vol _ _ _ (fst (feed seed op vstate out handle is_signing true m' later)) = m_vol _ _ _ (fst (feed seed op vstate out handle is_signing true m later)) /\
  m_log _ _ _ (fst (feed seed op vstate out handle is_signing true m' later)) = m_log _ _ _ (fst (feed seed op vstate out handle is_signing true m later)).
Proof. exact (continue_after_restart seed op vstate out v0 handle is_signing signing_pure). Qed.

(* the replay republishes exactly the outputs of the logged operations *)
Theorem C12_replay_outputs :
  forall s ops, (forall o, In o ops -> is_signing o = false) ->
  let m := fst (feed seed op vstate out handle is_signing true (fresh seed op vstate v0 s) ops) in
  snd (replay seed op vstate out handle is_signing (restart seed op vstate v0 m)) =
  snd (feed seed op vstate out handle is_signing true (fresh seed op vstate v0 s) ops).
Proof. exact (replay_outputs seed op vstate out v0 handle is_signing). Qed.
End C12.
Print Assumptions C12_replay_restores.
Print Assumptions C12_continue_after_restart.

(* "two machines created from the same mnemonic derive identical long-term keys": the key pair is a
   function of the seed only if the set_seed command of cmd/airgapped DERIVES it from the seed it
   has just set (GenerateKeys) and does not reload a pair the database already holds (InitKeys /
   LoadKeysFromDB) - regenerated from the source of the command on every run *)
Require Gen.Skeletons Board.File.
Theorem C12_set_seed_derives_the_keys :
  Gen.Skeletons.set_seed_steps = [Board.File.KSetSeed; Board.File.KGenerate].
Proof. reflexivity. Qed.
