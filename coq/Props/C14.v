(* C14 — API requests concurrent with polling behave as if executed one at a time. *)
From Coq Require Import List NArith ZArith Bool Arith.
Require Import Node.Serial Node.SerialProofs.
Import ListNotations.

(* finite, complete enumeration (bound stated): one operation result (7 store calls) against one
   PutOperation of the poller (3 store calls) - all 120 interleavings.  The outcome equals both
   sequential orders unless the poller's pool write falls between the request's last read of
   `operations` and its write: then the newly created operation is lost (open finding).  A retired
   operation is never offered again in any interleaving. *)
Theorem C14_interleaving_outcome_partial :
  forall sc, In sc (interleavings 7 3) ->
  (in_lost_window sc = false -> pending_after sc = [2]) /\
  (in_lost_window sc = true -> pending_after sc = []).
Proof. exact interleaving_outcome. Qed.
Print Assumptions C14_interleaving_outcome_partial.

Theorem C14_serialisable_refuted :
  exists sc, In sc (interleavings 7 3) /\ pending_after sc <> [2].
Proof. exact serialisable_refuted. Qed.

Theorem C14_sequential_orders :
  pending_after (repeat true 7 ++ repeat false 3) = [2] /\ pending_after (repeat false 3 ++ repeat true 7) = [2].
Proof. exact sequential_orders. Qed.
