(* C14 — API requests concurrent with polling behave as if executed one at a time.
   The pinned tree lost a newly created operation in some interleavings (theorems at the end of this
   file, kept as the record of the defect); the repair runs both handlers under one node mutex. *)
From Coq Require Import List NArith ZArith Bool Arith.
Require Import Node.Serial Node.SerialProofs Node.SerialLock Node.SerialLockProofs Node.ResetPoll Node.ResetPollProofs.
Require Gen.Skeletons.
Import ListNotations.

(* with the handler mutex (regenerated from the source: both handlers lock first, unlock on return):
   for EVERY schedule of the two threads - of any length, with any number of attempts to move a
   thread that is waiting for the lock - the two handlers are never inside their sections together,
   and once both have finished the newly created operation is pending and the answered one is not *)
Theorem C14_handlers_take_the_lock :
  Gen.Skeletons.process_message_locked && Gen.Skeletons.execute_operation_locked = true.
Proof. exact handlers_locked_ok. Qed.
Theorem C14_locked_handlers_serialisable :
  forall sched, let s := lkrun sched in
  ~ (l_apc s = 1 /\ l_bpc s = 1) /\ (l_apc s = 2 -> l_bpc s = 2 -> pending_of s = [2]).
Proof. exact locked_handlers_serialisable. Qed.
Print Assumptions C14_locked_handlers_serialisable.

(* ---- without the mutex (the pinned tree; defect repaired by the commit recorded in known_findings) ---- *)

(* finite, complete enumeration (bound stated): one operation result (7 store calls) against one
   PutOperation of the poller (5 store calls) - all 792 interleavings.  The outcome equals both
   sequential orders unless the poller's pool write falls between the request's last read of
   `operations` and its write: then the newly created operation is lost (open finding).  A retired
   operation is never offered again in any interleaving. *)
Theorem C14_interleaving_outcome_partial :
  forall sc, In sc (interleavings 7 5) ->
  (in_lost_window sc = false -> pending_after sc = [2]) /\
  (in_lost_window sc = true -> pending_after sc = []).
Proof. exact interleaving_outcome. Qed.
Print Assumptions C14_interleaving_outcome_partial.

Theorem C14_serialisable_refuted :
  exists sc, In sc (interleavings 7 5) /\ pending_after sc <> [2].
Proof. exact serialisable_refuted. Qed.

Theorem C14_sequential_orders :
  pending_after (repeat true 7 ++ repeat false 5) = [2] /\ pending_after (repeat false 5 ++ repeat true 7) = [2].
Proof. exact sequential_orders. Qed.

(* ---- a state reset (POST /resetState) against the poller: OPEN FINDING, nothing serialises the two
   (Node/ResetPoll.v: the poller's tick as LoadOffset+GetMessages, then ProcessMessage / SaveOffset per
   message, every call going to the current database; the reset swaps a fresh database in) ---- *)

(* the full statement is refuted for ANY board: the node has handled k >= 1 messages, at least one
   more is on the board, the request is served after the poller has fetched its tick's messages -
   however long the poller goes on afterwards, the fresh state is never given position 0 of the board
   (neither sequential order: both give it the whole board) *)
Theorem C14_reset_inside_a_tick_refuted :
  forall n k sched, 1 <= k -> k < n ->
  let w := run n ([false; true] ++ sched) (start k) in
  ~ In 0 (d_del (w_new w)) /\ w_swapped w = true.
Proof. exact reset_inside_a_tick_loses_the_board. Qed.
Print Assumptions C14_reset_inside_a_tick_refuted.

(* partial: boards of up to 6 messages, every k, EVERY instant of the request (154 cases, decided by
   computation): the outcome is the sequential one - the fresh state is given the whole board, in
   order, and ends at offset n - exactly when the request is served between two ticks *)
Theorem C14_reset_serialisable_iff_between_ticks_partial :
  forall n k p, n <= 6 -> 1 <= k <= n -> p < 2 * (n - k) + 4 ->
  replayed_all n (reset_after n k p (4 * n + 8)) = idle_at n k p.
Proof. exact reset_serialisable_iff_idle. Qed.

Theorem C14_reset_sequential_orders :
  forall n k, n <= 6 -> 1 <= k <= n ->
  replayed_all n (reset_after n k 0 (4 * n + 8)) = true /\
  replayed_all n (reset_after n k (2 * (n - k) + 1) (4 * n + 8)) = true.
Proof. exact sequential_orders_replay. Qed.
