(* C18 — rejected input is a no-op (node side; crash-freedom is decided by the harness). *)
From Coq Require Import String List NArith ZArith Bool.
Require Import Fsm.EngineDefs Fsm.Types Fsm.Actions Fsm.Provider Node.Types Node.Process Node.Facts.
Import ListNotations.

(* a refused board message leaves the node's state store untouched (no write to rounds, operations,
   tombstones or signatures) - for every store, every message and every state the round is found in.
   On the pinned tree the statement needed the exclusion "the round is not in a cancelled signing
   state": there the lazy restart was persisted before the message was judged (defect repaired, see
   known_findings `C18-lazy-restart-on-rejected-message`); the restart is now persisted only with the
   accepted message's own save. *)
Theorem C18_refused_message_writes_nothing :
  forall put now st m h,
  process_message put now {| h_st := st; h_tr := [] |} m = RErr h ->
  no_state_writes (h_tr h).
Proof. exact refused_message_writes_nothing. Qed.
Print Assumptions C18_refused_message_writes_nothing.
(* the same for the whole handler of a board message, the operation pool included (before the
   repairs of the handler it could report an error AFTER the round had been saved, when the very
   same operation was still pending; now the operation is put before the round is saved, and
   putting a pending operation again is no error) *)
Theorem C18_refused_board_message_writes_nothing :
  forall now st m h,
  process_board_message now {| h_st := st; h_tr := [] |} m = RErr h ->
  no_state_writes (h_tr h).
Proof. exact refused_board_message_writes_nothing. Qed.
Print Assumptions C18_refused_board_message_writes_nothing.

(* ---- the airgapped machine (operation files) ---- *)
Require Import Air.Reject Air.RejectProofs.

(* an operation file the machine rejects changes neither its DKG instances nor its log ... *)
Theorem C18_rejected_operation_changes_nothing : forall m o m', aprocess m o = (m', ARejected) -> m' = m.
Proof. exact rejected_changes_nothing. Qed.
(* ... so every operation fed afterwards is answered as if it had never been fed *)
Theorem C18_rejected_then_rest :
  forall m o rest, snd (aprocess m o) = ARejected ->
  afeed m (o :: rest) = (fst (afeed m rest), ARejected :: snd (afeed m rest)).
Proof. exact rejected_then_rest. Qed.
(* a malformed first operation of a round is rejected (there is nobody to address an error to) *)
Theorem C18_malformed_commits_rejected :
  forall m r, has_inst m r = false ->
  snd (aprocess m {| ao_kind := KCommits; ao_round := r; ao_wellformed := false |}) = ARejected.
Proof. exact malformed_commits_rejected. Qed.
Print Assumptions C18_rejected_then_rest.

(* reinitialisation messages (not signature-checked): undecodable, naming no round (blank
   identifier - refused since fix 15fca17 before the operation pool is touched), or naming a round
   the node already holds: the node's state is exactly what it was *)
Theorem C18_unusable_reinit_writes_nothing :
  forall now st r,
  (match r with None => True | Some rd => rd_id rd = 0%N \/ tget' (ns_rounds st) (rd_id rd) <> None end) ->
  match reinit_dkg now {| h_st := st; h_tr := [] |} r with
  | ROk h _ | RErr h => h = {| h_st := st; h_tr := [] |}
  | RPanic => False
  end.
Proof. exact unusable_reinit_writes_nothing. Qed.

(* a reinit operation file - carried out or refused - touches no round but the one it names: no other
   round gains or loses an instance or a key share (repaired by a9d7a75: a refused reinit file naming
   another round than its embedded operations left that round's key share in the database) *)
Require Import Air.Reinit Air.ReinitProofs.
Theorem C18_reinit_operation_touches_only_its_round :
  forall outer m ops r, r <> outer ->
  mem r (rm_inst (fst (handle_reinit outer m ops))) = mem r (rm_inst m) /\
  mem r (rm_shares (fst (handle_reinit outer m ops))) = mem r (rm_shares m).
Proof. exact reinit_touches_only_its_round. Qed.
Print Assumptions C18_reinit_operation_touches_only_its_round.

(* ---- the name of the file an operation travels in (client/types Operation.Filename, Node/FileName.v;
   repaired by 28a7d4a, 3a9e4b1, 1b86b05: identifiers from the board went into it unsanitised) ---- *)
Require Import Node.FileName Node.FileNameProofs.

(* whatever BYTES the round identifier, the operation identifier and the batch identifier are, every
   byte of the file name is a letter, a digit, '.', '_' or '-': no path separator, no NUL, no backslash -
   the name cannot leave the folder it is joined to, and creating the file cannot fail for its name *)
Theorem C18_file_name_has_no_separator :
  forall k round id batch b, In b (file_name k round id batch) ->
  (b <> 47 /\ b <> 0 /\ b <> 92 /\ 45 <= b <= 122)%N.
Proof. exact file_name_has_no_separator. Qed.
Print Assumptions C18_file_name_has_no_separator.

(* an identifier that consists of such characters goes through unchanged *)
Theorem C18_file_name_part_keeps_safe_identifiers :
  forall s, forallb safe_char s = true -> file_name_part s = s.
Proof. exact file_name_part_keeps_safe_identifiers. Qed.
