(* C18 — rejected input is a no-op (node side; crash-freedom is decided by the harness). *)
From Coq Require Import String List NArith ZArith Bool.
Require Import Fsm.EngineDefs Fsm.Types Fsm.Actions Fsm.Provider Node.Types Node.Process Node.Facts.
Import ListNotations.

(* partial statement: a refused board message leaves the node's state store untouched (no write
   to rounds, operations, tombstones or signatures), provided the round was not found in a
   cancelled signing state — there the lazy restart is persisted before the message is judged
   (open finding `lazy-restart-on-rejected-message`) *)
Theorem C18_refused_message_writes_nothing_partial :
  forall now st m h,
  (forall d, tget' (ns_rounds st) (m_round m) = Some d -> needs_lazy_restart (d_state d) = false) ->
  process_message now {| h_st := st; h_tr := [] |} m = RErr h ->
  no_state_writes (h_tr h).
Proof. exact refused_message_writes_nothing. Qed.
Print Assumptions C18_refused_message_writes_nothing_partial.
