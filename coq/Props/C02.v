(* C02 — key generation ends with one group key and mutually consistent shares. *)
From mathcomp Require Import all_ssreflect all_algebra.
Require Import Crypto.Lagrange Crypto.Pedersen.
Set Implicit Arguments. Unset Strict Implicit. Unset Printing Implicit Defensive.
Import GRing.Theory.
Local Open Scope ring_scope.

Section C02.
Variable F : fieldType.
Variable V : lmodType F.
Variable g : V.
Variable J : finType.
Variable f : J -> {poly F}.
Variable t : nat.
Hypothesis size_f : forall j, (size (f j) <= t)%N.

(* every participant's share (the sum of the deals it received) lies on the public polynomial
   (the sum of the dealers' commitments) *)
Theorem C02_share_on_poly x : share f x *: g = pub_eval g f x.
Proof. exact: share_on_poly. Qed.

(* its constant term is the commitment of the sum of the dealers' secrets: the announced key *)
Theorem C02_group_key : pub_eval g f 0 = (\sum_j (f j).[0]) *: g.
Proof. exact: group_key. Qed.

(* it has degree t-1 *)
Theorem C02_degree : (size (joint f) <= t)%N.
Proof. exact: degree_joint. Qed.

(* t-1 shares are consistent with EVERY group secret: they determine nothing about the key, so no
   combination of them is determined to be a valid signature *)
Theorem C02_t_minus_one_blind (xs : seq F) (v : F) :
  uniq xs -> 0 \notin xs -> (size xs).+1 = t ->
  exists q : {poly F}, [/\ (size q <= t)%N, q.[0] = v & forall x, x \in xs -> q.[x] = share f x].
Proof. exact: t_minus_one_blind. Qed.
End C02.
Print Assumptions C02_share_on_poly.
Print Assumptions C02_t_minus_one_blind.

(* ---- FSM side (the hot nodes): plain Coq statements on the model of dkg_proposal_fsm/actions.go ---- *)
Close Scope ring_scope.
From Coq Require Import String List NArith ZArith.
Require Import Fsm.EngineDefs Fsm.Types Fsm.Actions Fsm.Provider Fsm.KeyAgreement.

(* the key-confirmation phase is confirmed - the round goes on to signing-ready - only if every
   participant of the quorum announced the same group key *)
Theorem C02_master_keys_must_agree :
  forall ev p req resp p',
  action_dkg_validate 3 ev p req = CbOk (ev_dkg_confirmed 3) resp p' ->
  exists c, p_dkg p = Some c /\
    forall x y, List.In x (dc_quorum c) -> List.In y (dc_quorum c) -> dp_master (snd x) = dp_master (snd y).
Proof. exact master_keys_must_agree. Qed.
Print Assumptions C02_master_keys_must_agree.

(* an announcement makes its participant confirmed only if its public polynomial is the one the
   node already retains (or none was retained yet, and it is retained now); otherwise the
   participant is marked with an error - which cancels the round - and the retained polynomial
   stays: the polynomial a hot node keeps is the one every accepted announcement carried *)
Theorem C02_accepted_announcement_carries_retained_polynomial :
  forall p pid key poly created out resp p' c,
  p_dkg p = Some c ->
  dkg_confirm 3 p pid key (Some poly) created = CbOk out resp p' ->
  exists c' d', p_dkg p' = Some c' /\ qget (dc_quorum c') pid = Some d' /\
     ((dp_status d' = dkg_confirmed 3 /\ dc_pubpoly c' = poly /\ (dc_pubpoly c = 0%N \/ dc_pubpoly c = poly)) \/
      (dp_status d' = dkg_error 3 /\ dc_pubpoly c' = dc_pubpoly c /\ dc_pubpoly c <> poly)).
Proof. exact accepted_announcement_carries_retained_polynomial. Qed.
Print Assumptions C02_accepted_announcement_carries_retained_polynomial.
