(* C02 — key generation ends with one group key and mutually consistent shares. *)
From mathcomp Require Import all_ssreflect all_algebra.
Require Import Crypto.Lagrange Crypto.Pedersen.
Set Implicit Arguments. Unset Strict Implicit. Unset Printing Implicit Defensive.
Import GRing.Theory.
Local Open Scope ring_scope.

Section C02.
Variable F : fieldType.
Variable V : lmodType F.
Variable g : V.
Variable J : finType.
Variable f : J -> {poly F}.
Variable t : nat.
Hypothesis size_f : forall j, (size (f j) <= t)%N.

(* every participant's share (the sum of the deals it received) lies on the public polynomial
   (the sum of the dealers' commitments) *)
Theorem C02_share_on_poly x : share f x *: g = pub_eval g f x.
Proof. exact: share_on_poly. Qed.

(* its constant term is the commitment of the sum of the dealers' secrets: the announced key *)
Theorem C02_group_key : pub_eval g f 0 = (\sum_j (f j).[0]) *: g.
Proof. exact: group_key. Qed.

(* it has degree t-1 *)
Theorem C02_degree : (size (joint f) <= t)%N.
Proof. exact: degree_joint. Qed.

(* t-1 shares are consistent with EVERY group secret: they determine nothing about the key, so no
   combination of them is determined to be a valid signature *)
Theorem C02_t_minus_one_blind (xs : seq F) (v : F) :
  uniq xs -> 0 \notin xs -> (size xs).+1 = t ->
  exists q : {poly F}, [/\ (size q <= t)%N, q.[0] = v & forall x, x \in xs -> q.[x] = share f x].
Proof. exact: t_minus_one_blind. Qed.
End C02.
Print Assumptions C02_share_on_poly.
Print Assumptions C02_t_minus_one_blind.
