(* C13 — a hot node killed at any instant resumes without losing messages or operations. *)
From Coq Require Import String List NArith ZArith Bool.
Require Import Fsm.EngineDefs Fsm.Types Fsm.Actions Fsm.Provider Node.Types Node.Process Node.Crash Node.CrashReplay Node.CrashResult.
Require Node.Local.
Require Board.File Gen.Skeletons.
Import ListNotations.

(* the handler of a board message puts the operation into the pool BEFORE it saves the round, and the
   round save is its last durable write (fix of the former finding C13-fsm-saved-before-operation:
   the round used to be saved first, and a node killed between the two writes came back with a round
   that had moved on and no operation for it). *)

(* 1. killed strictly inside the handler - or anywhere in a handler that refuses the message - the
   node comes back with every stored round as it was *)
Theorem C13_killed_inside_keeps_rounds :
  forall now st m k hc u,
  let r := process_board_message now {| h_st := st; h_tr := [] |} m in
  (k < count_durable (trace_of r) \/ (exists h, r = RErr h)) ->
  crash_after st k r = ROk hc u ->
  ns_rounds (h_st hc) = ns_rounds st.
Proof. exact killed_inside_keeps_rounds. Qed.
Print Assumptions C13_killed_inside_keeps_rounds.

(* 2. ... and the redelivered message is handled - at whatever later time - exactly as the node that
   was never killed would handle it: same verdict, same operation, same new state of the round.
   (Messages that also write the signature store - batch proposals, reconstructed signatures - are
   covered by the crash cases of the correspondence runs, not by this theorem.) *)
Theorem C13_killed_inside_then_redelivered :
  forall put now now' st m k hc u,
  ns_skip st = false ->
  m_event m <> ev_sgn_start -> m_event m <> ev_sig_reconstructed ->
  let r := process_board_message now {| h_st := st; h_tr := [] |} m in
  k < count_durable (trace_of r) ->
  crash_after st k r = ROk hc u ->
  Node.Local.rrel (m_round m) (process_message put now' {| h_st := h_st hc; h_tr := [] |} m)
                              (process_message put now' {| h_st := st; h_tr := [] |} m).
Proof. exact killed_inside_then_redelivered. Qed.
Print Assumptions C13_killed_inside_then_redelivered.

(* 3. when the handler returns, the operation of the accepted message is in the pool (unless the very
   same operation has been handled and retired before) *)
Theorem C13_accepted_operation_is_pooled :
  forall now h0 m h o,
  process_message true now h0 m = ROk h (Some o) ->
  existsb (op_same_id o) (ns_deleted (h_st h)) = false ->
  existsb (op_same_id o) (ops_visible (h_st h)) = true.
Proof. exact accepted_operation_is_pooled. Qed.
Print Assumptions C13_accepted_operation_is_pooled.

(* the hypotheses are met: the opening proposal issues two durable writes, pool then rounds *)
Theorem C13_killed_inside_example :
  let st0 := empty_node 2%N 3%N in
  ns_skip st0 = false /\ m_event w_proposal <> ev_sgn_start /\ m_event w_proposal <> ev_sig_reconstructed /\
  count_durable (trace_of (process_board_message 777 {| h_st := st0; h_tr := [] |} w_proposal)) = 2%nat.
Proof. exact killed_inside_example. Qed.

(* the witness of the former finding (the opening proposal, killed after k = 0, 1, 2 durable writes,
   restarted, the proposal delivered again) now ends in the very state of the run never killed *)
Theorem C13_former_witness_resumes :
  let st0 := empty_node 2%N 3%N in
  pending (final_state st0 [InMsg w_proposal]) = 1%nat /\
  final_state st0 [InCrashMsg 0 w_proposal; InMsg w_proposal] = final_state st0 [InMsg w_proposal] /\
  final_state st0 [InCrashMsg 1 w_proposal; InMsg w_proposal] = final_state st0 [InMsg w_proposal] /\
  final_state st0 [InCrashMsg 2 w_proposal; InMsg w_proposal] = final_state st0 [InMsg w_proposal].
Proof. exact former_witness_resumes. Qed.
Print Assumptions C13_former_witness_resumes.

(* kept from before the repair: a crash before the handler's first write to the round map leaves
   every round as it was *)
Theorem C13_crash_before_round_write_partial :
  forall (A : Type) st k (r : res A) h u,
  forallb (fun w => negb (writes_rounds w)) (take_durable k (trace_of r)) = true ->
  crash_after st k r = ROk h u -> ns_rounds (h_st h) = ns_rounds st.
Proof. exact @crash_before_round_write_keeps_rounds. Qed.
Print Assumptions C13_crash_before_round_write_partial.

(* 4. killed inside the handling of an operation result (the answer's messages are posted one by one,
   then the operation is retired): wherever the process dies, the operation is exactly as pending as it
   was - the same answer will be accepted again - or every message of the answer is on the board.  An
   answer is never lost; at worst a prefix of it is posted twice *)
Theorem C13_killed_inside_result_handling :
  forall st x h k hc u,
  execute_operation {| h_st := st; h_tr := [] |} x = ROk h tt -> ox_event x <> ev_processed ->
  crash_after st k (execute_operation {| h_st := st; h_tr := [] |} x) = ROk hc u ->
  (ns_ops (h_st hc) = ns_ops st /\ ns_deleted (h_st hc) = ns_deleted st) \/
  ns_board (h_st hc) = ns_board st ++ map (out_of (ns_user st)) (ox_msgs x).
Proof. exact killed_inside_execute. Qed.
Print Assumptions C13_killed_inside_result_handling.

(* a clean stop/start changes nothing durable (operations, tombstones, rounds, signatures, board) *)
Theorem C13_restart_keeps_durable_state :
  forall now st h u, node_step now st InRestart = ROk h u ->
  ns_rounds (h_st h) = ns_rounds st /\ ns_ops (h_st h) = ns_ops st /\ ns_deleted (h_st h) = ns_deleted st /\
  ns_sigs (h_st h) = ns_sigs st /\ ns_board (h_st h) = ns_board st.
Proof. exact restart_keeps_durable_state. Qed.

(* effect orders regenerated from the source: Poll handles a message before saving the offset past
   it (a crash while handling leaves the saved offset at or before the message: it is fetched
   again); executeOperation sends the result's messages before retiring the operation *)
Theorem C13_poll_saves_offset_after_handling :
  forall saved o, (saved <= o)%Z ->
  match index_of_process Gen.Skeletons.poll_steps 0 with
  | Some i => (offset_after (firstn i Gen.Skeletons.poll_steps) saved o <= o)%Z
  | None => False
  end.
Proof. exact crash_while_handling_refetches. Qed.
Theorem C13_execute_sends_before_retiring :
  Gen.Skeletons.execute_steps = [Board.File.XLookup; Board.File.XSend; Board.File.XSaveFSM; Board.File.XDelete].
Proof. exact execute_order_ok. Qed.
