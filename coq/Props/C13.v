(* C13 — a hot node killed at any instant resumes without losing messages or operations. *)
From Coq Require Import String List NArith ZArith Bool.
Require Import Fsm.EngineDefs Fsm.Types Fsm.Actions Fsm.Provider Node.Types Node.Process Node.Crash.
Require Board.File Gen.Skeletons.
Import ListNotations.

(* the full statement (every crash point is harmless) is REFUTED: witness = the opening proposal,
   killed between SaveFSM and PutOperation; after restart and redelivery the round has advanced but
   the operation is never offered.  This is the open finding C13-fsm-saved-before-operation. *)
Theorem C13_resume_equiv_refuted :
  let st0 := empty_node 2%N 3%N in
  pending (final_state st0 [InMsg w_proposal]) = 1%nat /\
  pending (final_state st0 [InCrashMsg 1 w_proposal; InMsg w_proposal]) = 0%nat /\
  map (fun x => d_state (snd x)) (ns_rounds (final_state st0 [InCrashMsg 1 w_proposal; InMsg w_proposal])) =
  map (fun x => d_state (snd x)) (ns_rounds (final_state st0 [InMsg w_proposal])).
Proof. exact resume_equiv_refuted. Qed.
Print Assumptions C13_resume_equiv_refuted.

(* partial: a crash before the handler's first write to the round map leaves every round as it was,
   so the redelivered message is handled from the same round state *)
Theorem C13_crash_before_round_write_partial :
  forall (A : Type) st k (r : res A) h u,
  forallb (fun w => negb (writes_rounds w)) (take_durable k (trace_of r)) = true ->
  crash_after st k r = ROk h u -> ns_rounds (h_st h) = ns_rounds st.
Proof. exact @crash_before_round_write_keeps_rounds. Qed.
Print Assumptions C13_crash_before_round_write_partial.

(* a clean stop/start changes nothing durable (operations, tombstones, rounds, signatures, board) *)
Theorem C13_restart_keeps_durable_state :
  forall now st h u, node_step now st InRestart = ROk h u ->
  ns_rounds (h_st h) = ns_rounds st /\ ns_ops (h_st h) = ns_ops st /\ ns_deleted (h_st h) = ns_deleted st /\
  ns_sigs (h_st h) = ns_sigs st /\ ns_board (h_st h) = ns_board st.
Proof. exact restart_keeps_durable_state. Qed.

(* effect orders regenerated from the source: Poll handles a message before saving the offset past
   it (a crash while handling leaves the saved offset at or before the message: it is fetched
   again); executeOperation sends the result's messages before retiring the operation *)
Theorem C13_poll_saves_offset_after_handling :
  forall saved o, (saved <= o)%Z ->
  match index_of_process Gen.Skeletons.poll_steps 0 with
  | Some i => (offset_after (firstn i Gen.Skeletons.poll_steps) saved o <= o)%Z
  | None => False
  end.
Proof. exact crash_while_handling_refetches. Qed.
Theorem C13_execute_sends_before_retiring :
  Gen.Skeletons.execute_steps = [Board.File.XLookup; Board.File.XSend; Board.File.XSaveFSM; Board.File.XDelete].
Proof. exact execute_order_ok. Qed.
