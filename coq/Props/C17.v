(* C17 — baked withdrawal-credential messages equal the consensus-spec signing roots.
   Property theorems only; each closed by `exact` of a lemma proved elsewhere. *)
From Coq Require Import List NArith ZArith.
Require Import Lib.GoStr Ssz.Sha256 Ssz.Ssz Ssz.SszProofs Ssz.Rotation Ssz.RotationProofs.
Require Gen.Baked.
Import ListNotations.
Local Open Scope Z_scope.

(* the hasher program fastssz generates for any container of fixed-size fields computes the
   consensus-spec hash_tree_root, for all field values (any hash with 32-byte output) *)
Theorem C17_fastssz_eq_spec :
  forall (H : list N -> list N), (forall x, len32 (H x)) ->
  forall fs vs, NoDup (map fst fs) -> Forall2 (fun f v => wt (snd f) v) fs vs ->
  hash_root H (compile fs) (mkenv fs vs) = Some (htr_container H vs).
Proof. exact hash_root_compile. Qed.
Print Assumptions C17_fastssz_eq_spec.

(* for every validator index, the message offered for signing is
   compute_signing_root(BLSToExecutionChange(index, key, addr), compute_domain(...)) *)
Theorem C17_signing_root_spec :
  forall index : N, model_signing_root index = Some (spec_signing_root index).
Proof. exact model_signing_root_spec. Qed.
Print Assumptions C17_signing_root_spec.

Theorem C17_baked_positions :
  forall i, 0 <= i < 18632 ->
  exists v, parse_int64 (nth (Z.to_nat i) Gen.Baked.baked_lines []) = Some v /\
            0 <= v < 18446744073709551616 /\
            reconstruct_baked_in Gen.Baked.baked_lines i =
              BOk {| ms_id := nth (Z.to_nat i) Gen.Baked.baked_lines [];
                     ms_file := bakedrange_prefix ++ dec_of_Z i;
                     ms_payload := spec_signing_root (Z.to_N v);
                     ms_baked := true |}.
Proof. exact baked_positions_ok. Qed.
Print Assumptions C17_baked_positions.

Theorem C17_no_index_twice : NoDup (values_of (removelast Gen.Baked.baked_lines)).
Proof. exact baked_values_nodup. Qed.
Print Assumptions C17_no_index_twice.

Theorem C17_outside_refused :
  forall i, i < 0 \/ 18632 <= i -> exists e, reconstruct_baked_in Gen.Baked.baked_lines i = BErr e.
Proof. exact baked_positions_refused. Qed.
Print Assumptions C17_outside_refused.

Theorem C17_never_panics : forall i, reconstruct_baked_in Gen.Baked.baked_lines i <> BPanic.
Proof. exact reconstruct_never_panics. Qed.
Print Assumptions C17_never_panics.

(* non-vacuity: a concrete position and the root the implementation's own unit test expects *)
Example C17_example_root :
  model_signing_root 393395 =
  Some [35;204;255;199;118;126;27;154;84;179;225;140;152;111;0;208;52;88;37;188;171;33;234;229;
        254;146;200;73;214;207;237;180]%N.
Proof. vm_compute. reflexivity. Qed.

(* a whole baked RANGE that reaches outside the list is refused, whatever its (board-supplied)
   width - the expansion stops at the first position outside; the model's loop takes at most
   |list| + 1 steps, never a number of steps that depends on the width *)
Require Import Ssz.TasksProofs.
Theorem C17_range_outside_refused :
  forall t, tk_payload t = None -> tk_start t < tk_end t ->
  (tk_start t < 0 \/ 18632 < tk_end t) ->
  forall rest, exists err, tasks_to_messages (t :: rest) = BErr err.
Proof. exact range_outside_refused. Qed.
Print Assumptions C17_range_outside_refused.
