(* C15 — only unaltered answers to operations the node issued reach the board, once. *)
From Coq Require Import String List NArith ZArith Bool.
Require Import Fsm.EngineDefs Fsm.Types Fsm.Actions Fsm.Provider Node.Types Node.Process Node.Facts.
Import ListNotations.

(* an accepted operation result: it is a result (not a request), an operation with that id is
   pending (visible, i.e. not retired), type and payload bytes came back unchanged, and what is
   appended to the board is exactly the result's messages, in order, attributed to this node —
   followed only by the two pool writes that retire the operation *)
Theorem C15_result_posted_only_if_pending_and_unaltered :
  forall st x h,
  execute_operation {| h_st := st; h_tr := [] |} x = ROk h tt ->
  ox_event x <> ""%string /\
  exists stored, In stored (ops_visible st) /\ op_same_id (ox_ident x) stored = true /\
                 op_type stored = op_type (ox_op x) /\ ox_stored_bytes x = ox_bytes x /\ op_round stored = op_round (ox_op x) /\
                 (ox_event x <> ev_processed ->
                    exists tail, h_tr h = sends_of (ns_user st) (ox_msgs x) ++ tail /\
                                 forall w, In w tail -> match w with WSend _ => False | _ => True end).
Proof. exact result_posted_only_if_pending_and_unaltered. Qed.
Print Assumptions C15_result_posted_only_if_pending_and_unaltered.

(* "once": an answered operation is retired - an answer carrying the same operation id is refused
   afterwards and changes nothing *)
Require Import Node.Once.
Theorem C15_answered_operation_is_retired :
  forall st x h x',
  execute_operation {| h_st := st; h_tr := [] |} x = ROk h tt ->
  op_same_id (ox_ident x') (ox_ident x) = true ->
  execute_operation {| h_st := h_st h; h_tr := [] |} x' = RErr {| h_st := h_st h; h_tr := [] |}.
Proof. exact answered_operation_is_retired. Qed.
Print Assumptions C15_answered_operation_is_retired.

(* "processed" (nothing goes to the board) is the answer to a reinit operation only: offered for any
   other pending operation it is refused and the operation stays pending (since fix a91c0a0; before
   it such a file retired the operation with nothing posted) *)
Theorem C15_processed_event_only_for_reinit :
  forall st x stored,
  find (op_same_id (ox_ident x)) (ops_visible st) = Some stored ->
  ox_event x = ev_processed -> op_type stored <> ev_reinit ->
  execute_operation {| h_st := st; h_tr := [] |} x = RErr {| h_st := st; h_tr := [] |}.
Proof. exact processed_event_only_for_reinit. Qed.
