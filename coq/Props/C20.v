(* C20 — reinitialising from a log dump reproduces key material and state.
   Hash part: theorems below over the Gallina model of CalcStartReInitDKGMessageHash (compared with
   the implementation on every run).  State part: the node model's reinit_dkg (compared with the real
   reinitDKG on every run) ignores embedded messages of other rounds; the recovery of the share by
   the airgapped machine rests on the log/replay theorems of C12 and is run on real machines. *)
From Coq Require Import String List NArith ZArith.
Require Import Lib.GoStr Ssz.Sha1 Fsm.Actions Node.Types Node.Process Node.ReinitHash Node.ReinitHashProofs Node.ReinitProofs.
Import ListNotations.

(* identical on every node for the same file *)
Theorem C20_same_file_same_hash : forall f g, f = g -> reinit_hash f = reinit_hash g.
Proof. exact same_file_same_hash. Qed.
Print Assumptions C20_same_file_same_hash.

(* the property's quantifier - every single-field edit of a reinit file: the id, the threshold, a
   participant's name, new / old communication key or DKG key, a contained message's payload,
   signature, recipient, event, sender, round id or offset - changes the hashed byte string.
   (partial only in that SHA-1 itself cannot be proved injective; it is run by the harness on every
   such edit of real files) *)
Theorem C20_single_field_edit_changes_hash_input :
  forall f g, file_edit f g -> hash_input f <> hash_input g.
Proof. exact single_field_edit_changes_hash_input. Qed.
Print Assumptions C20_single_field_edit_changes_hash_input.

(* several fields at once: among files of the same shape equal pre-images force equal fields *)
Theorem C20_same_shape_sensitive :
  forall f g, map (@length N) (fields f) = map (@length N) (fields g) ->
  hash_input f = hash_input g -> fields f = fields g.
Proof. exact same_shape_sensitive. Qed.
Print Assumptions C20_same_shape_sensitive.

(* beyond the quantifier (two fields edited at once with different lengths) the statement is
   refuted: no separators (id "ab", threshold 12  vs  id "ab1", threshold 2) *)
Theorem C20_multi_field_sensitivity_refuted :
  amb1 <> amb2 /\ hash_input amb1 = hash_input amb2 /\ reinit_hash amb1 = reinit_hash amb2.
Proof. exact sensitivity_refuted. Qed.
Print Assumptions C20_multi_field_sensitivity_refuted.

(* junk / other rounds' traffic inside the dump - a signing batch of another key included (since fix
   "a signing batch of another round does not end the replay"; before it the statement had to
   exclude signing starts) - has no influence on the reinitialisation *)
Theorem C20_reinit_ignores_foreign_rounds :
  forall now h rd l m r,
  N.eqb (m_round m) (rd_id rd) = false ->
  reinit_dkg now h (Some (with_msgs rd (l ++ m :: r))) = reinit_dkg now h (Some (with_msgs rd (l ++ r))).
Proof. exact reinit_ignores_foreign_rounds. Qed.
Print Assumptions C20_reinit_ignores_foreign_rounds.

(* ... and so has any message of the signing phase, of the restored round too, wherever it stands in
   the file: a batch proposal that every node refused while the key generation was under way does not
   end the replay (fix 34530eb: the replay used to END at the first signing proposal of its round) *)
Theorem C20_reinit_ignores_signing_messages :
  forall now h rd l m r,
  is_signing_event (m_event m) = true ->
  reinit_dkg now h (Some (with_msgs rd (l ++ m :: r))) = reinit_dkg now h (Some (with_msgs rd (l ++ r))).
Proof. exact reinit_ignores_signing_messages. Qed.
Print Assumptions C20_reinit_ignores_signing_messages.

(* the state part is REFUTED for dumps that contain a message the original nodes refused for its
   signature (known finding reinit-replays-unverified-message): while verification is switched off -
   as it is for the whole replay of a reinitialisation - the signature of a message is never looked
   at, so a forged decline or error report lying on the board is applied at reinitialisation although
   it had no effect on the original ceremony.  (The harness replays the witness on real clusters.) *)
Theorem C20_replay_does_not_verify :
  forall put now st m s, ns_skip st = true ->
  process_message put now {| h_st := st; h_tr := [] |} (with_sig m s) = process_message put now {| h_st := st; h_tr := [] |} m.
Proof. exact unverified_replay. Qed.
Print Assumptions C20_replay_does_not_verify.
