(* C20 — reinitialising from a log dump reproduces key material and state.
   Hash part: theorems below over the Gallina model of CalcStartReInitDKGMessageHash (compared with
   the implementation on every run).  State part: the node model's reinit_dkg (compared with the real
   reinitDKG on every run) ignores embedded messages of other rounds; the recovery of the share by
   the airgapped machine rests on the log/replay theorems of C12 and is run on real machines. *)
From Coq Require Import String List NArith ZArith.
Require Import Lib.GoStr Ssz.Sha1 Fsm.Actions Node.Types Node.Process Node.ReinitHash Node.ReinitHashProofs Node.ReinitProofs.
Import ListNotations.

(* identical on every node for the same file *)
Theorem C20_same_file_same_hash : forall f g, f = g -> reinit_hash f = reinit_hash g.
Proof. exact same_file_same_hash. Qed.
Print Assumptions C20_same_file_same_hash.

(* the property's quantifier - every single-field edit of a reinit file: the id, the threshold, a
   participant's name, new / old communication key or DKG key, a contained message's payload,
   signature, recipient, event, sender, round id or offset - changes the hashed byte string.
   (partial only in that SHA-1 itself cannot be proved injective; it is run by the harness on every
   such edit of real files) *)
Theorem C20_single_field_edit_changes_hash_input :
  forall f g, file_edit f g -> hash_input f <> hash_input g.
Proof. exact single_field_edit_changes_hash_input. Qed.
Print Assumptions C20_single_field_edit_changes_hash_input.

(* several fields at once: among files of the same shape equal pre-images force equal fields *)
Theorem C20_same_shape_sensitive :
  forall f g, map (@length N) (fields f) = map (@length N) (fields g) ->
  hash_input f = hash_input g -> fields f = fields g.
Proof. exact same_shape_sensitive. Qed.
Print Assumptions C20_same_shape_sensitive.

(* beyond the quantifier (two fields edited at once with different lengths) the statement is
   refuted: no separators (id "ab", threshold 12  vs  id "ab1", threshold 2) *)
Theorem C20_multi_field_sensitivity_refuted :
  amb1 <> amb2 /\ hash_input amb1 = hash_input amb2 /\ reinit_hash amb1 = reinit_hash amb2.
Proof. exact sensitivity_refuted. Qed.
Print Assumptions C20_multi_field_sensitivity_refuted.

(* junk / other rounds' traffic inside the dump - a signing batch of another key included (since fix
   "a signing batch of another round does not end the replay"; before it the statement had to
   exclude signing starts) - has no influence on the reinitialisation *)
Theorem C20_reinit_ignores_foreign_rounds :
  forall now h rd l m r,
  N.eqb (m_round m) (rd_id rd) = false ->
  reinit_dkg now h (Some (with_msgs rd (l ++ m :: r))) = reinit_dkg now h (Some (with_msgs rd (l ++ r))).
Proof. exact reinit_ignores_foreign_rounds. Qed.
Print Assumptions C20_reinit_ignores_foreign_rounds.

(* ... and so has any message of the signing phase, of the restored round too, wherever it stands in
   the file: a batch proposal that every node refused while the key generation was under way does not
   end the replay (fix 34530eb: the replay used to END at the first signing proposal of its round) *)
Theorem C20_reinit_ignores_signing_messages :
  forall now h rd l m r,
  is_signing_event (m_event m) = true ->
  reinit_dkg now h (Some (with_msgs rd (l ++ m :: r))) = reinit_dkg now h (Some (with_msgs rd (l ++ r))).
Proof. exact reinit_ignores_signing_messages. Qed.
Print Assumptions C20_reinit_ignores_signing_messages.

(* the state part is REFUTED for dumps that contain a message the original nodes refused for its
   signature (known finding reinit-replays-unverified-message): while verification is switched off -
   as it is for the whole replay of a reinitialisation - the signature of a message is never looked
   at, so a forged decline or error report lying on the board is applied at reinitialisation although
   it had no effect on the original ceremony.  (The harness replays the witness on real clusters.) *)
Theorem C20_replay_does_not_verify :
  forall put now st m s, ns_skip st = true ->
  process_message put now {| h_st := st; h_tr := [] |} (with_sig m s) = process_message put now {| h_st := st; h_tr := [] |} m.
Proof. exact unverified_replay. Qed.
Print Assumptions C20_replay_does_not_verify.

(* a concrete witness (Node/RestoreRefuted.v): after the opening proposal of round 9 a decline in
   participant 0's name, signed by nobody, lies on the board; the live nodes refuse it writing
   nothing and keep waiting for confirmations - the node restored from the very same log holds the
   round as cancelled; without the forged message the two agree *)
Require Import Node.RestoreRefuted.
Theorem C20_restore_reaches_live_state_refuted :
  exists log, restored_state log <> round_state (live_of log) 9%N.
Proof. exact restore_reaches_live_state_refuted. Qed.
Print Assumptions C20_restore_reaches_live_state_refuted.

Theorem C20_restore_witness :
  (exists h, (process_message true 777%Z {| h_st := live_of [Node.Local.ex_prop 9%N]; h_tr := [] |} forged_decline = RErr h) /\ (h_tr h = [])) /\
  (round_state (live_of the_log) 9%N = Some "state_sig_proposal_await_participants_confirmations"%string /\
   restored_state the_log = Some "state_sig_proposal_canceled_by_participant"%string) /\
  (restored_state [Node.Local.ex_prop 9%N] = round_state (live_of [Node.Local.ex_prop 9%N]) 9%N /\
   restored_state [Node.Local.ex_prop 9%N] <> None).
Proof.
  exact (conj live_nodes_refuse_the_forged_decline (conj restored_round_differs_from_live_round without_the_forged_message_they_agree)).
Qed.

(* ---- the tool that writes the reinit file (client/types GenerateReDKGMessage, Node/GenReDKG.v) ---- *)
Require Import Node.GenReDKG Node.GenReDKGProofs.

(* a message of the signing phase, wherever it lies in the board log and whoever posted it, leaves the
   file exactly as it is without it (before the repair 34530eb the file ENDED at the first one) *)
Theorem C20_generator_ignores_signing_messages :
  forall l m r, is_signing_event (gm_event m) = true -> gen_redkg (l ++ m :: r) = gen_redkg (l ++ r).
Proof. exact gen_ignores_signing_messages. Qed.
Print Assumptions C20_generator_ignores_signing_messages.

(* the file's messages are the log without the signing phase, in the log's order - nothing else is
   dropped, nothing reordered *)
Theorem C20_generator_keeps_everything_else :
  forall log, gf_msgs (gen_redkg log) = filter (fun m => negb (is_signing_event (gm_event m))) log.
Proof. exact gen_keeps_everything_else. Qed.

(* with one opening proposal in the log the file names that proposal's round, threshold, participants *)
Theorem C20_generator_header_of_single_proposal :
  forall l p r, gm_event p = ev_sig_init ->
  (forall m, In m (l ++ r) -> gm_event m <> ev_sig_init) ->
  let f := gen_redkg (l ++ p :: r) in
  gf_id f = gm_round p /\ gf_threshold f = gm_threshold p /\ gf_parts f = gm_parts p.
Proof. exact gen_header_of_single_proposal. Qed.

(* ---- the 0.1.4 adaptation of a reinit file (adapt_dkg.go GetAdaptedReDKG, Node/Adapt.v) ---- *)
Require Import Node.Adapt Node.AdaptProofs.

(* every sender that has a deal message IN THE ROUND BEING RESTORED gets exactly one synthetic
   self-confirmation, every other sender none - whatever deals of other rounds in that sender's name the
   file holds (before the repair 5ae9baa a foreign deal used the sender's self-confirmation up) *)
Theorem C20_adaptation_one_self_confirmation_per_dealer :
  forall id s msgs, (forall m, In m msgs -> am_synthetic m = false) ->
  synthetic_of s (adapt id msgs) = if has_deal id s msgs then 1%nat else 0%nat.
Proof. exact one_self_confirmation_per_dealer_of_the_round. Qed.
Print Assumptions C20_adaptation_one_self_confirmation_per_dealer.

(* a synthetic message is a deal of the restored round from its sender to itself *)
Theorem C20_adaptation_synthetic_messages_belong_to_the_round :
  forall id msgs x, (forall m, In m msgs -> am_synthetic m = false) ->
  In x (adapt id msgs) -> am_synthetic x = true ->
  am_round x = id /\ am_event x = ev_deal /\ am_recipient x = am_sender x.
Proof. exact synthetic_messages_belong_to_the_restored_round. Qed.

(* the file's own messages are all kept, in order (only their offsets change), and the offsets of the
   adapted file are its positions *)
Theorem C20_adaptation_keeps_the_file :
  forall id msgs, (forall m, In m msgs -> am_synthetic m = false) ->
  map forget_offset (filter (fun m => negb (am_synthetic m)) (adapt id msgs)) = map forget_offset msgs.
Proof. exact adapted_keeps_the_file. Qed.
Theorem C20_adaptation_offsets_are_positions :
  forall id msgs, offsets_are_positions (adapt id msgs).
Proof. exact adapted_offsets_are_positions. Qed.
