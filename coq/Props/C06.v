(* C06 — reconstruction starts at exactly t distinct contributions to the current batch.
   Property theorems only. *)
From Coq Require Import String List NArith ZArith Bool.
Require Import Fsm.EngineDefs Fsm.Types Fsm.Engine Fsm.EngineFacts Fsm.Actions Fsm.Provider Fsm.SigningFacts.
Require Gen.Tables.
Import ListNotations.
Local Open Scope Z_scope.

(* a contribution is accepted only for the batch being signed (never a stale or empty batch id),
   only from an awaited member of the quorum, and raises the number of confirmed participants
   by exactly one, leaving failures, quorum size and threshold unchanged *)
Theorem C06_contribution_counts_once_for_current_batch :
  forall ev p batch pid signs created out resp p',
  action_sgn_partial ev p (RPartial batch pid signs created) = CbOk out resp p' ->
  exists g part g', p_sgn p = Some g /\ batch = gc_batch g /\ batch <> 0%N /\
                 qget (gc_quorum g) pid = Some part /\ gp_status part = SgnAwait /\
                 p_sgn p' = Some g' /\ gc_batch g' = gc_batch g /\
                 count_status SgnConfirmed (gc_quorum g') = count_status SgnConfirmed (gc_quorum g) + 1 /\
                 count_status SgnError (gc_quorum g') = count_status SgnError (gc_quorum g) /\
                 length (gc_quorum g') = length (gc_quorum g) /\ p_threshold p' = p_threshold p.
Proof. exact partial_accept_spec. Qed.
Print Assumptions C06_contribution_counts_once_for_current_batch.

(* the validation that runs after every accepted signing event starts reconstruction exactly
   when at least t participants are confirmed (and not more than n-t failed), and cancels the
   batch exactly when more than n-t participants reported failure *)
Theorem C06_collect_iff_threshold :
  forall ev p req g, p_sgn p = Some g ->
  let n := Z.of_nat (length (gc_quorum g)) in
  let confirmed := count_status SgnConfirmed (gc_quorum g) in
  let failed := count_status SgnError (gc_quorum g) in
  exists out resp p',
    action_sgn_validate ev p req = CbOk out resp p' /\
    (out = ev_sgn_confirmed <->
       expired (gc_expires g) (gc_updated g) = false /\ failed <= n - p_threshold p /\ p_threshold p <= confirmed) /\
    (out = ev_sgn_cancel_error <->
       expired (gc_expires g) (gc_updated g) = false /\ n - p_threshold p < failed).
Proof. exact sgn_validate_spec. Qed.
Print Assumptions C06_collect_iff_threshold.

(* regenerated signing table: a finished batch (collected or cancelled) routes only the restart,
   which leads to idle; idle routes only a proposal, which opens a batch *)
Theorem C06_finished_batch_only_restart :
  forallb (fun s => forallb (fun tr => negb (String.eqb (t_src tr) s) ||
                                       (String.eqb (t_ev tr) ev_sgn_restart && String.eqb (t_dst tr) "stage_signing_idle"))
                            (ft_transitions Gen.Tables.signing_table))
          ["state_signing_partial_signs_collected"; "state_signing_partial_signs_await_cancelled_by_error";
           "state_signing_partial_signs_await_cancelled_by_timeout"]%string = true.
Proof. exact finished_batch_only_restart. Qed.
Theorem C06_idle_only_start :
  forallb (fun tr => negb (String.eqb (t_src tr) "stage_signing_idle") ||
                     (String.eqb (t_ev tr) ev_sgn_start && String.eqb (t_dst tr) "state_signing_await_partial_signs"))
          (ft_transitions Gen.Tables.signing_table) = true.
Proof. exact idle_only_start. Qed.
