(* C05 — a round advances only on unanimous delivery; any failure aborts it for good;
   an unacceptable event changes nothing.  Property theorems only. *)
From Coq Require Import String List NArith ZArith Bool.
Require Import Fsm.EngineDefs Fsm.Types Fsm.Engine Fsm.EngineFacts Fsm.Actions Fsm.Provider
               Fsm.TableFacts Fsm.CancelFinal Fsm.RejectNoop.
Require Gen.Tables.
Import ListNotations.
Local Open Scope string_scope.

(* (2) abort is final: for every history, every event/request/clock value, a round that is in a
   cancelled state stays in that cancelled state *)
Theorem C05_cancel_final :
  forall d tr, In (d_state d) cancelled_states -> d_state (run_round d tr) = d_state d.
Proof. exact cancel_final. Qed.
Print Assumptions C05_cancel_final.

(* engine, any table and callbacks: Do moves the machine along at most three table transitions;
   with the regenerated tables this bounds what any event can do *)
Theorem C05_do_follows_table :
  forall t cb cur p ev req cur' rs rd err p',
  fsm_do t cb cur p ev req = DoRes cur' rs rd err p' -> hops3 t cur cur'.
Proof. exact fsm_do_hops. Qed.
Print Assumptions C05_do_follows_table.

(* (4) rejection is a no-op: a callback that refuses a request returns the payload unchanged,
   and an event without a route does not touch the instance at all *)
Theorem C05_refusal_keeps_payload :
  forall mach ev p req p', cb_by_name mach ev p req = CbErr p' -> p' = p.
Proof. exact callback_refusal_keeps_payload. Qed.
Print Assumptions C05_refusal_keeps_payload.

Theorem C05_no_route_noop :
  forall i ev req, match inst_do i ev req with IRoute i' => dump_of i' = dump_of i | _ => True end.
Proof. exact do_route_or_refusal_noop. Qed.
Print Assumptions C05_no_route_noop.

(* the regenerated tables are the ones the model's callbacks are written for *)
Theorem C05_tables_match_model :
  same_set model_cb_events_sig (ft_callbacks Gen.Tables.sigprop_table) &&
  same_set model_cb_events_dkg (ft_callbacks Gen.Tables.dkgprop_table) &&
  same_set model_cb_events_sgn (ft_callbacks Gen.Tables.signing_table) = true.
Proof. exact callbacks_registered. Qed.

Theorem C05_pool_is_source_states :
  incl_b pool_states_model Gen.Tables.pool_states && incl_b Gen.Tables.pool_states pool_states_model = true.
Proof. exact pool_states_model_ok. Qed.

(* non-vacuity: an honest three-participant ceremony reaches the signing-ready state in the model *)
Definition ps3 : list part_entry :=
  [ {| pe_name := 2; pe_name_len := 5; pe_pk := 3; pe_pk_len := 12; pe_dpk := 4; pe_dpk_len := 12 |};
    {| pe_name := 5; pe_name_len := 5; pe_pk := 6; pe_pk_len := 12; pe_dpk := 7; pe_dpk_len := 12 |};
    {| pe_name := 8; pe_name_len := 5; pe_pk := 9; pe_pk_len := 12; pe_dpk := 10; pe_dpk_len := 12 |} ]%N.
Definition honest_run : list (Z * string * request) :=
  (List.app [ (0, ev_sig_init, RList ps3 2 0) ]
   (List.app (map (fun i => (20, ev_sig_confirm, RPart i 10)) [0; 1; 2])
   (List.app (flat_map (fun k => map (fun i => (20, ev_dkg_confirm k, RData k i (20 + Z.to_N i)%N 10)) [0; 1; 2]) [0; 1; 2]%N)
   (map (fun i => (30, ev_dkg_confirm 3, RMaster i 30%N 31%N 10)) [0; 1; 2]))))%Z.
Example C05_honest_run_reaches_ready :
  d_state (run_round {| d_state := "__idle"; d_payload := empty_payload |} honest_run) = "stage_signing_idle".
Proof. vm_compute. reflexivity. Qed.

(* (1) unanimity: the proposal is validated only when every invited participant has accepted, and
   each key-generation phase is confirmed only when every participant of the quorum has confirmed it *)
Require Import Fsm.Unanimous.
Theorem C05_proposal_validated_unanimously :
  forall ev p req resp p', action_sig_validate ev p req = CbOk ev_sig_set_validated resp p' ->
  exists conf, p_sig p = Some conf /\ forall x, In x (sc_quorum conf) -> sp_status (snd x) = SigConfirmed.
Proof. exact sig_validated_unanimous. Qed.
Theorem C05_dkg_phase_confirmed_unanimously :
  forall k ev p req resp p', (k < 4)%N ->
  action_dkg_validate k ev p req = CbOk (ev_dkg_confirmed k) resp p' ->
  exists c, p_dkg p = Some c /\ forall x, In x (dc_quorum c) -> dp_status (snd x) = dkg_confirmed k.
Proof. exact dkg_phase_confirmed_unanimous. Qed.
Print Assumptions C05_dkg_phase_confirmed_unanimously.

(* (1) order: in the graph of the regenerated tables signing-ready is reachable from the entry
   state, but not around any of the phases, and no phase around its predecessor; from
   signing-ready no key-generation state is reachable again *)
Theorem C05_phases_in_order :
  reach_avoiding "" "__idle" "stage_signing_idle" = true /\
  forallb (fun s => negb (reach_avoiding s "__idle" "stage_signing_idle")) phase_order = true /\
  forallb (fun ab => negb (reach_avoiding (fst ab) "__idle" (snd ab))) (consecutive phase_order) = true /\
  forallb (fun s => negb (reach_avoiding "" "stage_signing_idle" s)) phase_order = true.
Proof. exact phases_in_order. Qed.
Print Assumptions C05_phases_in_order.

(* (node) the handler refines the dump-level step the theorems above are about: whenever
   processMessage ACCEPTS a message of a stored round (not in a cancelled state - there the lazy
   restart runs first), the round it persists is exactly round_step of the round it loaded and the
   operation it returns is the one built from round_step's response; likewise for the first
   message of a round the node has not seen, from the initial dump *)
Require Import Node.Types Node.Process Node.Refines.
Theorem C05_node_persists_round_step :
  forall put now st m d0 h' op,
  tget' (ns_rounds st) (m_round m) = Some d0 -> d_state d0 <> "" ->
  has_suffix (d_state d0) "_error" = false -> has_suffix (d_state d0) "_timeout" = false ->
  String.eqb (m_event m) ev_sig_reconstructed = false ->
  String.eqb (m_event m) ev_sig_recon_failed = false ->
  process_message put now {| h_st := st; h_tr := [] |} m = ROk h' op ->
  exists req d r x, m_req m = MFsm req /\ round_step now d0 (m_event m) req = SOk d r x /\
                    tget' (ns_rounds (h_st h')) (m_round m) = Some d /\ op = op_of (m_round m) r x.
Proof. exact process_message_refines_round_step. Qed.
Theorem C05_node_first_message_round_step :
  forall put now st m h' op,
  tget' (ns_rounds st) (m_round m) = None ->
  String.eqb (m_event m) ev_sig_reconstructed = false ->
  String.eqb (m_event m) ev_sig_recon_failed = false ->
  process_message put now {| h_st := st; h_tr := [] |} m = ROk h' op ->
  exists req d r x, m_req m = MFsm req /\ round_step now initial_dump_of (m_event m) req = SOk d r x /\
                    tget' (ns_rounds (h_st h')) (m_round m) = Some d /\ op = op_of (m_round m) r x.
Proof. exact first_message_refines_round_step. Qed.
(* the same for a stored round in ANY state: when the round is found in a cancelled signing state
   the handler first applies the restart event (in memory), then the step *)
Theorem C05_node_persists_round_step_any_state :
  forall put now st m d0 h' op,
  tget' (ns_rounds st) (m_round m) = Some d0 -> d_state d0 <> "" ->
  String.eqb (m_event m) ev_sig_reconstructed = false ->
  String.eqb (m_event m) ev_sig_recon_failed = false ->
  process_message put now {| h_st := st; h_tr := [] |} m = ROk h' op ->
  (h' = {| h_st := st; h_tr := [] |} /\ op = None) \/
  exists req d1 d r x, m_req m = MFsm req /\ restarts now d0 d1 /\
                       round_step now d1 (m_event m) req = SOk d r x /\
                       tget' (ns_rounds (h_st h')) (m_round m) = Some d /\ op = op_of (m_round m) r x.
Proof. exact process_message_refines_round_step_any_state. Qed.
Print Assumptions C05_node_persists_round_step_any_state.
