(* C19 — persisting and restoring a round never changes its behaviour.  Property theorems only. *)
From Coq Require Import String List NArith ZArith Bool.
Require Import Fsm.EngineDefs Fsm.Types Fsm.Engine Fsm.EngineFacts Fsm.Actions Fsm.Provider
               Fsm.CancelFinal Fsm.Loadable.
Import ListNotations.

(* an instance whose machine owns its current state and the instance rebuilt from its dump are the
   same instance: every next event gets the same acceptance, next state, response and payload *)
Theorem C19_restore_step :
  forall i ev req, owned i -> fsm_case (dump_of i) ev req = obs_of_do (inst_do i ev req).
Proof. exact restore_step. Qed.
Print Assumptions C19_restore_step.

Theorem C19_restored_is_owned :
  forall d i, from_dump d = LoadOk i -> d_state d <> ""%string -> owned i.
Proof. exact restored_is_owned. Qed.

(* full statement "every reachable round can be loaded back": refuted (witness: one decline) *)
Theorem C19_all_loadable_refuted :
  exists tr, from_dump (run_round initial_dump tr) = LoadErr.
Proof. exact all_loadable_refuted. Qed.
Print Assumptions C19_all_loadable_refuted.

(* strongest true version: for every history, the round is loadable unless it sits in one of the
   six dead states listed in known_findings.jsonl *)
Theorem C19_all_loadable_partial :
  forall tr, let d := run_round initial_dump tr in
  In (d_state d) dead_states \/ exists i, from_dump d = LoadOk i.
Proof. exact all_loadable_partial. Qed.
Print Assumptions C19_all_loadable_partial.
