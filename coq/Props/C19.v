(* C19 — persisting and restoring a round never changes its behaviour.  Property theorems only. *)
From Coq Require Import String List NArith ZArith Bool.
Require Import Fsm.EngineDefs Fsm.Types Fsm.Engine Fsm.EngineFacts Fsm.Actions Fsm.Provider
               Fsm.CancelFinal Fsm.Loadable.
Import ListNotations.

(* an instance whose machine owns its current state and the instance rebuilt from its dump are the
   same instance: every next event gets the same acceptance, next state, response and payload *)
Theorem C19_restore_step :
  forall i ev req, owned i -> fsm_case (dump_of i) ev req = obs_of_do (inst_do i ev req).
Proof. exact restore_step. Qed.
Print Assumptions C19_restore_step.

(* since the hand-over repair (fix in FSMInstance.Do) the hypothesis is met by EVERY live instance -
   whatever state of its machine it sits in, final and hand-over states included: continuing in
   memory and continuing after dump + restore answer every event alike *)
Theorem C19_restore_step_every_live_instance :
  forall i ev req, live i -> fsm_case (dump_of i) ev req = obs_of_do (inst_do i ev req).
Proof. exact restore_step_live. Qed.
Print Assumptions C19_restore_step_every_live_instance.

Theorem C19_restored_is_owned :
  forall d i, from_dump d = LoadOk i -> d_state d <> ""%string -> owned i.
Proof. exact restored_is_owned. Qed.

(* every state a round can reach - cancelled and finished rounds included - can be loaded back
   (holds since the repair of the FSM pool, fix bd98172: final states are registered; before it six
   cancelled states were not owned by any machine and one decline made a round unloadable) *)
Theorem C19_all_loadable :
  forall tr, exists i, from_dump (run_round initial_dump tr) = LoadOk i.
Proof. exact all_loadable. Qed.
Print Assumptions C19_all_loadable.

Example C19_declined_round_is_loadable :
  d_state (run_round initial_dump declined_history) = "state_sig_proposal_canceled_by_participant"%string /\
  exists i, from_dump (run_round initial_dump declined_history) = LoadOk i.
Proof. exact declined_round_is_loadable. Qed.
