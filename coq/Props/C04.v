(* C04 — secrets stay inside the airgapped machine and are never reused across rounds.
   The theorems are about the symbolic model of everything that leaves the machine (Air/Terms.v),
   whose printed structure is compared with the structure of the real result files on every run
   (every field, nesting level, byte length, and who can open which ciphertext). *)
From Coq Require Import String List Arith Bool.
Require Import Air.Terms Air.SecrecyProofs Air.Lock Air.LockProofs.
Import ListNotations.

(* no result of any operation type (the four key-generation steps, signing, reinitialisation, and
   the error result of each), for any n, t, participant and batch size, lets anybody without keys
   read the seed, the long-term key, a coefficient, a sub-share or the share *)
Theorem C04_results_expose_nothing :
  forall o n t me nm err x, In x (result_terms (result_of o n t me nm err)) -> readable [] x = [].
Proof. exact results_expose_nothing. Qed.
Print Assumptions C04_results_expose_nothing.

(* whatever set of keys somebody holds (other participants' long-term keys, even the operator's
   password), the results give him only the sub-shares addressed to participants whose key he holds *)
Theorem C04_results_expose_only_addressed_subshares :
  forall o n t me nm err ks x, In x (result_terms (result_of o n t me nm err)) ->
  forall s, In s (readable ks x) -> exists j, s = SSub j /\ existsb (key_eqb (KPart j)) ks = true.
Proof. exact results_expose_only_addressed_subshares. Qed.
Print Assumptions C04_results_expose_only_addressed_subshares.

(* a deal meant for one participant opens with that participant's key only, and is sent to him only *)
Theorem C04_deal_only_for_addressee :
  forall n t me m j k, In m (rs_msgs (result_of ODeals n t me 0 false)) -> mg_to m = Some j -> k <> j ->
  readable [KPart k] (mg_body m) = [].
Proof. exact deal_only_for_addressee. Qed.
Print Assumptions C04_deal_only_for_addressee.
Theorem C04_deal_opens_for_addressee : forall t j, readable [KPart j] (deal_for t j) = [SSub j].
Proof. exact deal_opens_for_addressee. Qed.

(* the database: the private key and the share occur only under the password key; in the clear
   the database holds the seed (as the code stores it) and nothing else *)
Theorem C04_database_key_and_share_only_under_password :
  forall t name v, In (name, v) (database t) ->
  In SLongKey (readable [KPass] v) \/ In SShare (readable [KPass] v) -> exists b, v = Enc KPass b.
Proof. exact database_key_and_share_only_under_password. Qed.
Print Assumptions C04_database_key_and_share_only_under_password.
Theorem C04_database_clear_text : forall t, flat_map (fun kv => readable [] (snd kv)) (database t) = [SSeed].
Proof. exact database_clear_text. Qed.
Theorem C04_wrong_password_opens_nothing : forall pw pw' b, pw' <> pw -> open_with pw' pw (Enc KPass b) = None.
Proof. exact wrong_password_opens_nothing. Qed.

(* "a share is always saved under the operator's password" is REFUTED for the prompt of
   cmd/airgapped (known finding password-check-outside-command-lock): the password is checked in one
   critical section (enterEncryptionPasswordIfNeeded) and used in the next (the command handler); a
   password-expiry tick that falls in between clears it, and the master-key command then saves the
   share under an empty password *)
Theorem C04_share_saved_under_password_refuted : exists sched, saved (lrun sched) = [false].
Proof. exact share_saved_under_password_refuted. Qed.
Print Assumptions C04_share_saved_under_password_refuted.
(* partial: in every interleaving of commands and ticks in which the tick takes no step in that gap
   every share is saved under the password - inside each section the command owns the lock and the
   tick waits (what Machine.DropSensitiveData's own lock provides) *)
Theorem C04_share_saved_under_password_partial :
  forall sched, gapless_from linit sched = true -> Forall (fun b => b = true) (saved (lrun sched)).
Proof. exact share_saved_under_password_partial. Qed.
Print Assumptions C04_share_saved_under_password_partial.

(* "key material of different rounds is unrelated" is REFUTED (known finding
   same-dealer-polynomial): the dealer's polynomial does not depend on the round; with the same
   participants the group key, with the same threshold as well every share, coincide *)
Theorem C04_rounds_unrelated_refuted :
  forall c1 c2 : round_cfg,
    (forall m k, coeff_source c1 m k = coeff_source c2 m k) /\
    (sorted (rc_machines c1) = sorted (rc_machines c2) -> group_key_source c1 = group_key_source c2) /\
    (sorted (rc_machines c1) = sorted (rc_machines c2) -> rc_t c1 = rc_t c2 ->
     forall x, share_source c1 x = share_source c2 x).
Proof. exact rounds_unrelated_refuted. Qed.
Print Assumptions C04_rounds_unrelated_refuted.
(* what does differ between rounds *)
Theorem C04_rounds_unrelated_partial :
  forall c1 c2 m p, rc_id c1 <> rc_id c2 -> deal_randomness c1 m p <> deal_randomness c2 m p.
Proof. exact rounds_unrelated_partial. Qed.
