(* C16 on an arbitrary board file (junk lines, hostile offset claims): what the reader hands out is
   gap-free in the sense that matters to the poller - offsets are positions, strictly increasing,
   and reading from k gives exactly the entries a reader from 0 was given at offsets >= k. *)
From Coq Require Import List NArith ZArith Bool Lia Arith Sorted.
Require Import Board.File Board.FileProofs Board.Raw.
Import ListNotations.
Local Open Scope Z_scope.

(* every entry handed out: its offset is the position of the line it was decoded from, at or after
   the requested offset, and its tag/id are that line's *)
Lemma read_from_sound pos k ids offs l e :
  In e (read_from pos k ids offs l) ->
  exists i x, nth_error l i = Some (LEntry x) /\ e_offset e = pos + Z.of_nat i /\ k <= e_offset e /\
              e_tag e = e_tag x /\ e_id e = e_id x /\
              existsb (N.eqb (e_id x)) ids = false /\ existsb (Z.eqb (e_offset e)) offs = false.
Proof.
  revert pos. induction l as [|x r IH]; intros pos Hin; cbn [read_from] in Hin; [contradiction|].
  assert (Hrest : In e (read_from (pos + 1) k ids offs r) ->
                  exists i y, nth_error (x :: r) i = Some (LEntry y) /\ e_offset e = pos + Z.of_nat i /\ k <= e_offset e /\
                              e_tag e = e_tag y /\ e_id e = e_id y /\
                              existsb (N.eqb (e_id y)) ids = false /\ existsb (Z.eqb (e_offset e)) offs = false).
  { intros H. destruct (IH (pos + 1) H) as (i & y & Hn & Ho & Hk & Ht).
    exists (S i), y. split; [exact Hn|]. split; [lia|]. split; [exact Hk|exact Ht]. }
  destruct (pos <? k) eqn:Ek; [apply Hrest; exact Hin|]. apply Z.ltb_ge in Ek.
  destruct x as [x|n]; [|apply Hrest; exact Hin].
  destruct (existsb (N.eqb (e_id x)) ids) eqn:Ei; cbn [orb] in Hin; [apply Hrest; exact Hin|].
  destruct (existsb (Z.eqb pos) offs) eqn:Eo; [apply Hrest; exact Hin|].
  destruct Hin as [<-|Hin]; [|apply Hrest; exact Hin].
  exists 0%nat, x. cbn. repeat split; auto; lia.
Qed.

(* ... and every decodable, not ignored line at or after the requested offset IS handed out *)
Lemma read_from_complete pos k ids offs l i x :
  nth_error l i = Some (LEntry x) -> k <= pos + Z.of_nat i ->
  existsb (N.eqb (e_id x)) ids = false -> existsb (Z.eqb (pos + Z.of_nat i)) offs = false ->
  In {| e_tag := e_tag x; e_offset := pos + Z.of_nat i; e_id := e_id x; e_len := e_len x |} (read_from pos k ids offs l).
Proof.
  revert pos i. induction l as [|y r IH]; intros pos i Hn Hk Hi Ho; [destruct i; discriminate|].
  cbn [read_from]. destruct i as [|i].
  - cbn in Hn. inversion Hn; subst y. rewrite Z.add_0_r in *.
    destruct (pos <? k) eqn:Ek; [apply Z.ltb_lt in Ek; lia|]. rewrite Hi, Ho. left. reflexivity.
  - cbn in Hn. replace (pos + Z.of_nat (S i)) with (pos + 1 + Z.of_nat i) in * by lia.
    specialize (IH (pos + 1) i Hn Hk Hi Ho).
    destruct (pos <? k); [exact IH|]. destruct y as [y|n]; [|exact IH].
    destruct (existsb (N.eqb (e_id y)) ids || existsb (Z.eqb pos) offs); [exact IH|right; exact IH].
Qed.

Lemma read_from_lower pos k ids offs l e : In e (read_from pos k ids offs l) -> pos <= e_offset e.
Proof. intros H. destruct (read_from_sound _ _ _ _ _ _ H) as (i & x & _ & Ho & _). lia. Qed.

(* the offsets handed out are strictly increasing: a total order without repeats *)
Theorem read_from_increasing pos k ids offs l :
  StronglySorted (fun a b => e_offset a < e_offset b) (read_from pos k ids offs l).
Proof.
  revert pos. induction l as [|x r IH]; intros pos; cbn [read_from]; [constructor|].
  destruct (pos <? k); [apply IH|]. destruct x as [x|n]; [|apply IH].
  destruct (existsb (N.eqb (e_id x)) ids || existsb (Z.eqb pos) offs); [apply IH|].
  constructor; [apply IH|]. apply Forall_forall. intros e He. apply read_from_lower in He. cbn. lia.
Qed.

(* below the first position nothing is passed over *)
Lemma read_from_noskip pos k ids offs l : k <= pos -> read_from pos k ids offs l = read_from pos pos ids offs l.
Proof.
  revert pos k. induction l as [|x r IH]; intros pos k Hk; cbn [read_from]; [reflexivity|].
  cbv zeta. rewrite (IH (pos + 1) k) by lia. rewrite (IH (pos + 1) pos) by lia.
  destruct (pos <? k) eqn:E; [apply Z.ltb_lt in E; lia|]. rewrite Z.ltb_irrefl. reflexivity.
Qed.

(* resuming: a read from k is the read from the start restricted to the offsets >= k - so a poller
   that resumes at (last offset it was given) + 1 is given exactly the entries after it *)
Theorem read_from_resume pos k ids offs l :
  read_from pos k ids offs l = filter (fun e => k <=? e_offset e) (read_from pos pos ids offs l).
Proof.
  revert pos. induction l as [|x r IH]; intros pos; cbn [read_from]; [reflexivity|].
  rewrite Z.ltb_irrefl.
  assert (Hrest : read_from (pos + 1) k ids offs r = filter (fun e => k <=? e_offset e) (read_from (pos + 1) pos ids offs r)).
  { rewrite IH. rewrite (read_from_noskip (pos + 1) pos) by lia. reflexivity. }
  destruct (pos <? k) eqn:Ek.
  - apply Z.ltb_lt in Ek. destruct x as [x|n]; [|exact Hrest].
    destruct (existsb (N.eqb (e_id x)) ids || existsb (Z.eqb pos) offs); [exact Hrest|].
    cbn [filter e_offset]. destruct (k <=? pos) eqn:E; [apply Z.leb_le in E; lia|exact Hrest].
  - apply Z.ltb_ge in Ek. destruct x as [x|n]; [|exact Hrest].
    destruct (existsb (N.eqb (e_id x)) ids || existsb (Z.eqb pos) offs); [exact Hrest|].
    cbn [filter e_offset]. destruct (k <=? pos) eqn:E; [|apply Z.leb_gt in E; lia]. rewrite Hrest. reflexivity.
Qed.

(* on a file that only `send` has written (no junk, every stored offset its position, lines within
   the limit) the reader of an arbitrary file is the reader of Board/File.v *)
Lemma read_from_entries pos k ids offs f :
  (forall i e, nth_error f i = Some e -> e_offset e = pos + Z.of_nat i) -> pos <= k ->
  read_from pos k ids offs (map LEntry f) =
  filter (fun e => negb (existsb (N.eqb (e_id e)) ids) && negb (existsb (Z.eqb (e_offset e)) offs))
         (skipn (Z.to_nat (k - pos)) f).
Proof.
  revert pos k. induction f as [|e r IH]; intros pos k Hp Hk; cbn [map read_from].
  - rewrite skipn_nil. reflexivity.
  - assert (He : e_offset e = pos) by (rewrite (Hp 0%nat e eq_refl); lia).
    assert (Hr : forall i x, nth_error r i = Some x -> e_offset x = pos + 1 + Z.of_nat i).
    { intros i x Hn. rewrite (Hp (S i) x Hn). lia. }
    destruct (pos <? k) eqn:E.
    + apply Z.ltb_lt in E. rewrite (IH (pos + 1) k Hr) by lia.
      replace (Z.to_nat (k - pos)) with (S (Z.to_nat (k - (pos + 1)))) by lia. reflexivity.
    + apply Z.ltb_ge in E. assert (k = pos) by lia. subst k.
      replace (Z.to_nat (pos - pos)) with 0%nat by lia. cbn [skipn filter].
      rewrite He. rewrite (read_from_noskip (pos + 1) pos) by lia.
      rewrite (IH (pos + 1) (pos + 1) Hr) by lia. replace (Z.to_nat (pos + 1 - (pos + 1))) with 0%nat by lia. cbn [skipn].
      destruct (existsb (N.eqb (e_id e)) ids); cbn [orb negb andb]; [reflexivity|].
      destruct (existsb (Z.eqb pos) offs); cbn [negb]; [reflexivity|].
      f_equal. destruct e; cbn in *; subst; reflexivity.
Qed.

Lemma scan_lines_entries limit f : lines_ok limit f -> scan_lines limit (map LEntry f) = (map LEntry f, true).
Proof.
  induction 1 as [|e r He _ IH]; cbn [map scan_lines line_len]; [reflexivity|].
  destruct (limit <? e_len e) eqn:E; [apply Z.ltb_lt in E; lia|]. rewrite IH. reflexivity.
Qed.

Theorem raw_reader_on_sent_file limit f k ids offs :
  positions_ok f -> lines_ok limit f -> 0 <= k ->
  get_messages_raw limit (map LEntry f) k ids offs = get_messages limit f k ids offs.
Proof.
  intros Hp Hl Hk. unfold get_messages_raw, get_messages. rewrite scan_lines_entries, scan_all by exact Hl.
  rewrite read_from_entries; [rewrite Z.sub_0_r; reflexivity| |exact Hk].
  intros i e Hn. rewrite (Hp i e Hn). lia.
Qed.

(* non-vacuity / the shape of the harness' hostile file: a sent entry, two sparse lines, a line that is
   not JSON, one with a field of the wrong type, one that claims offset 900 *)
Example hostile_file_read :
  let f := [LEntry {| e_tag := 1%N; e_offset := 0; e_id := 11%N; e_len := 200 |};
            LEntry {| e_tag := 2%N; e_offset := 1; e_id := 12%N; e_len := 50 |};
            LEntry {| e_tag := 3%N; e_offset := 2; e_id := 13%N; e_len := 50 |};
            LJunk 28; LJunk 60;
            LEntry {| e_tag := 6%N; e_offset := 900; e_id := 16%N; e_len := 90 |}] in
  option_map (map (fun e => (e_tag e, e_offset e))) (get_messages_raw LIMIT f 0 [] []) =
    Some [(1%N, 0); (2%N, 1); (3%N, 2); (6%N, 5)] /\
  option_map (map (fun e => (e_tag e, e_offset e))) (get_messages_raw LIMIT f 3 [] []) = Some [(6%N, 5)] /\
  option_map (map (fun e => (e_tag e, e_offset e))) (get_messages_raw LIMIT f 0 [12%N] [5]) = Some [(1%N, 0); (3%N, 2)].
Proof. vm_compute. repeat split. Qed.
