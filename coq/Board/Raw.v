(* The (repaired) reader of the file board on an ARBITRARY file: anybody who can write to the file
   can append a line that does not decode, or one that claims any offset.  Definitions only. *)
From Coq Require Import List NArith ZArith Bool.
Require Import Board.File.
Import ListNotations.
Local Open Scope Z_scope.

(* a raw line: an entry as stored (e_offset = what the line CLAIMS), or a line that does not decode *)
Inductive line := LEntry (e : entry) | LJunk (len : Z).
Definition line_len (l : line) : Z := match l with LEntry e => e_len e | LJunk n => n end.

Fixpoint scan_lines (limit : Z) (f : list line) : list line * bool :=
  match f with
  | [] => ([], true)
  | x :: r => if limit <? line_len x then ([], false)
              else let (l, ok) := scan_lines limit r in (x :: l, ok)
  end.

(* GetMessages(offset): the lines before `offset` are passed over, a line that does not decode is
   skipped, every entry is handed out with its POSITION as offset (whatever the line claims), and
   the ignore lists are looked up by id and by position *)
Fixpoint read_from (pos offset : Z) (ign_ids : list N) (ign_offs : list Z) (l : list line) : list entry :=
  match l with
  | [] => []
  | x :: r =>
      let rest := read_from (pos + 1) offset ign_ids ign_offs r in
      if pos <? offset then rest else
      match x with
      | LJunk _ => rest
      | LEntry e =>
          if existsb (N.eqb (e_id e)) ign_ids || existsb (Z.eqb pos) ign_offs then rest
          else {| e_tag := e_tag e; e_offset := pos; e_id := e_id e; e_len := e_len e |} :: rest
      end
  end.

Definition get_messages_raw (read_limit : Z) (f : list line) (offset : Z) (ign_ids : list N) (ign_offs : list Z)
  : option (list entry) :=
  let (l, ok) := scan_lines read_limit f in
  if ok then Some (read_from 0 offset ign_ids ign_offs l) else None.
