(* The file bulletin board (storage/file_storage/fileStorage.go): a file is a list of lines;
   `send` is the interpretation of the step list regenerated from the source; readers and the
   line counter use a scanner with a token limit.  Definitions only. *)
From Coq Require Import List NArith ZArith Bool.
Import ListNotations.
Local Open Scope Z_scope.

(* what matters of a stored message: a unique tag given by the sender, the offset written into
   it, its id (for ignore lists) and the length of its JSON line *)
Record entry := { e_tag : N; e_offset : Z; e_id : N; e_len : Z }.

Inductive step := SLock | SSeek | SCount | SMarshal | SWrite | SUnlock.
Definition step_eqb (a b : step) : bool :=
  match a, b with
  | SLock, SLock | SSeek, SSeek | SCount, SCount | SMarshal, SMarshal | SWrite, SWrite | SUnlock, SUnlock => true
  | _, _ => false
  end.

(* bufio.Scanner with a token limit: scanning stops at the first line longer than the limit *)
Fixpoint scan (limit : Z) (f : list entry) : list entry * bool (* false = ErrTooLong *) :=
  match f with
  | [] => ([], true)
  | e :: r => if limit <? e_len e then ([], false)
              else let (l, ok) := scan limit r in (e :: l, ok)
  end.

Definition count_lines (limit : Z) (f : list entry) : Z := Z.of_nat (length (fst (scan limit f))).

(* ---- concurrent writers: each runs the step list on its own handle ---- *)
Record writer := { w_pc : list step;             (* remaining steps of the current send *)
                   w_todo : list (N * N * Z);    (* messages still to send: (tag, id, line length) *)
                   w_cur : option (N * N * Z);   (* message being sent *)
                   w_off : Z }.                  (* offset counted for it *)

Record world := { file : list entry; lock : option nat; writers : list writer }.

Definition upd_writer (ws : list writer) (i : nat) (w : writer) : list writer :=
  firstn i ws ++ w :: skipn (S i) ws.

(* one atomic step of writer i (blocked on a held lock: no change) *)
Definition sched_step (prog : list step) (count_limit : Z) (wd : world) (i : nat) : world :=
  match nth_error (writers wd) i with
  | None => wd
  | Some w =>
      match w_pc w with
      | [] =>
          (* start the next message *)
          match w_todo w with
          | [] => wd
          | m :: r => {| file := file wd; lock := lock wd;
                         writers := upd_writer (writers wd) i {| w_pc := prog; w_todo := r; w_cur := Some m; w_off := 0 |} |}
          end
      | s :: pc' =>
          let w' := {| w_pc := pc'; w_todo := w_todo w; w_cur := w_cur w; w_off := w_off w |} in
          match s with
          | SLock => match lock wd with
                     | Some _ => wd                                   (* blocked *)
                     | None => {| file := file wd; lock := Some i; writers := upd_writer (writers wd) i w' |}
                     end
          | SUnlock => {| file := file wd; lock := (match lock wd with Some j => if Nat.eqb i j then None else Some j | None => None end);
                          writers := upd_writer (writers wd) i w' |}
          | SCount => {| file := file wd; lock := lock wd;
                         writers := upd_writer (writers wd) i
                                      {| w_pc := pc'; w_todo := w_todo w; w_cur := w_cur w; w_off := count_lines count_limit (file wd) |} |}
          | SWrite => match w_cur w with
                      | Some (tag, id, len) =>
                          {| file := file wd ++ [{| e_tag := tag; e_offset := w_off w; e_id := id; e_len := len |}];
                             lock := lock wd; writers := upd_writer (writers wd) i w' |}
                      | None => wd
                      end
          | SSeek | SMarshal => {| file := file wd; lock := lock wd; writers := upd_writer (writers wd) i w' |}
          end
      end
  end.

Definition run_sched (prog : list step) (count_limit : Z) (wd : world) (sched : list nat) : world :=
  fold_left (sched_step prog count_limit) sched wd.

(* ---- sequential semantics: Send of one message by a single writer ---- *)
Definition send_seq (count_limit : Z) (f : list entry) (m : N * N * Z) : list entry :=
  let '(tag, id, len) := m in
  f ++ [{| e_tag := tag; e_offset := count_lines count_limit f; e_id := id; e_len := len |}].

(* ---- GetMessages(offset) with ignore lists (by id, by the offset stored in the message) ---- *)
Definition get_messages (read_limit : Z) (f : list entry) (offset : Z) (ign_ids : list N) (ign_offs : list Z)
  : option (list entry) :=
  let (l, ok) := scan read_limit f in
  if ok then
    Some (filter (fun e => negb (existsb (N.eqb (e_id e)) ign_ids) && negb (existsb (Z.eqb (e_offset e)) ign_offs))
                 (skipn (Z.to_nat offset) l))
  else None.

(* the limits of the (repaired) code *)
Definition LIMIT : Z := 1048576.

(* vocabulary of the effect-order skeletons regenerated from node_service.go *)
Inductive pstep := PLoadOffset | PGetMessages | PProcess | PSaveOffset.
Inductive xstep := XLookup | XSend | XSaveFSM | XDelete.
(* cmd/airgapped, set_seed: what the command does to the machine's keys *)
Inductive kstep := KSetSeed | KGenerate | KInit | KLoad.
