(* C16: the file board is an append-only, gap-free, totally ordered log. *)
From Coq Require Import List NArith ZArith Bool Lia Arith.
Require Import Board.File.
Require Gen.Skeletons.
Import ListNotations.
Local Open Scope Z_scope.

(* every entry's stored offset is its position, and every line is within the limit *)
Definition positions_ok (f : list entry) : Prop :=
  forall i e, nth_error f i = Some e -> e_offset e = Z.of_nat i.
Definition lines_ok (limit : Z) (f : list entry) : Prop := Forall (fun e => e_len e <= limit) f.

Lemma scan_all limit f : lines_ok limit f -> scan limit f = (f, true).
Proof.
  induction 1 as [|e r He _ IH]; cbn [scan]; [reflexivity|].
  destruct (limit <? e_len e) eqn:E; [apply Z.ltb_lt in E; lia|]. rewrite IH. reflexivity.
Qed.

Lemma count_all limit f : lines_ok limit f -> count_lines limit f = Z.of_nat (length f).
Proof. intros H. unfold count_lines. rewrite scan_all by exact H. reflexivity. Qed.

Lemma positions_app f e :
  positions_ok f -> e_offset e = Z.of_nat (length f) -> positions_ok (f ++ [e]).
Proof.
  intros Hf He i x Hn. destruct (Nat.lt_ge_cases i (length f)) as [Hlt|Hge].
  - rewrite nth_error_app1 in Hn by exact Hlt. apply Hf. exact Hn.
  - rewrite nth_error_app2 in Hn by exact Hge.
    destruct (i - length f)%nat as [|k] eqn:Ek; cbn in Hn.
    + inversion Hn; subst. rewrite He. f_equal. lia.
    + destruct k; discriminate.
Qed.

(* ---- a single writer (or any sequential order of sends) ---- *)
Theorem send_seq_ok limit f m :
  positions_ok f -> lines_ok limit f -> snd m <= limit ->
  positions_ok (send_seq limit f m) /\ lines_ok limit (send_seq limit f m) /\
  exists e, send_seq limit f m = f ++ [e] /\ e_tag e = fst (fst m).
Proof.
  intros Hp Hl Hm. destruct m as [[tag id] len]. cbn [send_seq fst snd] in *.
  split; [|split].
  - apply positions_app; [exact Hp|]. cbn. apply count_all. exact Hl.
  - apply Forall_app. split; [exact Hl|]. constructor; [cbn; lia|constructor].
  - eexists. split; reflexivity.
Qed.

Theorem sends_seq_ok limit ms f :
  positions_ok f -> lines_ok limit f -> Forall (fun m => snd m <= limit) ms ->
  let f' := fold_left (send_seq limit) ms f in
  positions_ok f' /\ lines_ok limit f' /\ map e_tag f' = map e_tag f ++ map (fun m => fst (fst m)) ms /\
  exists tail, f' = f ++ tail.
Proof.
  revert f. induction ms as [|m ms IH]; intros f Hp Hl Hms; cbn [fold_left map].
  - rewrite app_nil_r. repeat split; auto. exists []. symmetry. apply app_nil_r.
  - inversion Hms as [|? ? Hm Hrest]; subst.
    destruct (send_seq_ok limit f m Hp Hl Hm) as (Hp' & Hl' & e & He & Htag).
    specialize (IH (send_seq limit f m) Hp' Hl' Hrest). cbn zeta in *.
    destruct IH as (I1 & I2 & I3 & I4). repeat split; auto.
    + rewrite I3, He, map_app. cbn [map]. rewrite Htag, <- app_assoc. reflexivity.
    + destruct I4 as [tail I4]. exists (e :: tail). rewrite I4, He, <- app_assoc. reflexivity.
Qed.

(* reading from offset k returns exactly the entries from position k on, minus the ignored ones *)
Theorem read_from_k limit f k ign_ids ign_offs :
  lines_ok limit f -> 0 <= k ->
  get_messages limit f k ign_ids ign_offs =
    Some (filter (fun e => negb (existsb (N.eqb (e_id e)) ign_ids) && negb (existsb (Z.eqb (e_offset e)) ign_offs))
                 (skipn (Z.to_nat k) f)).
Proof. intros Hl _. unfold get_messages. rewrite scan_all by exact Hl. reflexivity. Qed.

(* ---- the regenerated step list of `send` and the regenerated limits ---- *)
Definition expected_send : list step := [SLock; SSeek; SCount; SMarshal; SWrite; SUnlock].
Lemma send_steps_ok : Gen.Skeletons.file_send_steps = expected_send.
Proof. reflexivity. Qed.
Lemma limits_ok : Gen.Skeletons.count_limit = LIMIT /\ Gen.Skeletons.read_limit = LIMIT.
Proof. split; reflexivity. Qed.

(* ---- concurrent writers under the lock ---- *)
Fixpoint upd {A} (l : list A) (i : nat) (a : A) : list A :=
  match l, i with
  | [], _ => []
  | _ :: t, O => a :: t
  | h :: t, S i' => h :: upd t i' a
  end.
Lemma upd_writer_upd ws i w : (i < length ws)%nat -> upd_writer ws i w = upd ws i w.
Proof.
  revert i. induction ws as [|h t IH]; intros [|i] Hi; cbn in *; try lia; [reflexivity|].
  unfold upd_writer in *. cbn. f_equal. apply IH. lia.
Qed.
Lemma nth_upd_same {A} (l : list A) i a : (i < length l)%nat -> nth_error (upd l i a) i = Some a.
Proof. revert i; induction l as [|h t IH]; intros [|i] H; cbn in *; try lia; auto. apply IH; lia. Qed.
Lemma nth_upd_other {A} (l : list A) i j a : j <> i -> nth_error (upd l i a) j = nth_error l j.
Proof. revert i j; induction l as [|h t IH]; intros [|i] [|j] H; cbn; auto; try lia. Qed.
Lemma upd_length {A} (l : list A) i a : length (upd l i a) = length l.
Proof. revert i; induction l as [|h t IH]; intros [|i]; cbn; auto. Qed.

(* where a writer is inside `send` *)
Definition outside (w : writer) : Prop := w_pc w = [] \/ w_pc w = expected_send.
Definition inside (flen : nat) (w : writer) : Prop :=
  w_pc w = [SSeek; SCount; SMarshal; SWrite; SUnlock] \/ w_pc w = [SCount; SMarshal; SWrite; SUnlock] \/
  ((w_pc w = [SMarshal; SWrite; SUnlock] \/ w_pc w = [SWrite; SUnlock]) /\ w_off w = Z.of_nat flen /\ w_cur w <> None) \/
  False.
Definition after_write (w : writer) : Prop := w_pc w = [SUnlock].

Definition msgs_ok limit (w : writer) : Prop :=
  Forall (fun m => snd m <= limit) (w_todo w) /\
  match w_cur w with Some m => snd m <= limit | None => True end /\
  (w_pc w <> [] -> w_cur w <> None).

Definition Inv (limit : Z) (wd : world) : Prop :=
  positions_ok (file wd) /\ lines_ok limit (file wd) /\
  (forall j w, nth_error (writers wd) j = Some w -> msgs_ok limit w) /\
  match lock wd with
  | None => forall j w, nth_error (writers wd) j = Some w -> outside w
  | Some i =>
      (exists w, nth_error (writers wd) i = Some w /\ (inside (length (file wd)) w \/ after_write w)) /\
      forall j w, j <> i -> nth_error (writers wd) j = Some w -> outside w
  end.

Ltac inv_pc H := repeat match type of H with _ \/ _ => destruct H as [H|H] end.

Lemma msgs_ok_step limit w pc o :
  msgs_ok limit w -> w_cur w <> None ->
  msgs_ok limit {| w_pc := pc; w_todo := w_todo w; w_cur := w_cur w; w_off := o |}.
Proof. intros (H1 & H2 & H3) Hc. split; [exact H1|]. split; [exact H2|]. intros _. exact Hc. Qed.

Ltac mk_inv := refine (conj _ (conj _ (conj _ _))); cbn [file lock writers].

Theorem sched_step_inv limit wd i :
  Inv limit wd -> Inv limit (sched_step expected_send limit wd i).
Proof.
  intros (Hp & Hl & Hm & Hlock). unfold sched_step.
  destruct (nth_error (writers wd) i) as [w|] eqn:Ew; [|exact (conj Hp (conj Hl (conj Hm Hlock)))].
  assert (Hi : (i < length (writers wd))%nat) by (apply nth_error_Some; congruence).
  pose proof (Hm i w Ew) as Hmw. pose proof Hmw as (Hm1 & Hm2 & Hm3).
  assert (Hother : forall (w' : writer) j x, j <> i -> nth_error (upd_writer (writers wd) i w') j = Some x ->
                                    nth_error (writers wd) j = Some x).
  { intros w' j x Hj Hn. rewrite upd_writer_upd in Hn by exact Hi. rewrite nth_upd_other in Hn by exact Hj. exact Hn. }
  assert (Hsame : forall (w' : writer), nth_error (upd_writer (writers wd) i w') i = Some w').
  { intros w'. rewrite upd_writer_upd by exact Hi. apply nth_upd_same. exact Hi. }
  assert (Hmsgs : forall (w' : writer), msgs_ok limit w' ->
             forall j x, nth_error (upd_writer (writers wd) i w') j = Some x -> msgs_ok limit x).
  { intros w' Hw' j x Hn. destruct (Nat.eq_dec j i) as [->|Hj].
    - rewrite Hsame in Hn. inversion Hn; subst. exact Hw'.
    - eapply Hm. eapply Hother; eassumption. }
  assert (Hkeep : forall (w' : writer) k, k <> i ->
             (forall j x, j <> k -> nth_error (writers wd) j = Some x -> outside x) ->
             outside w' ->
             forall j x, j <> k -> nth_error (upd_writer (writers wd) i w') j = Some x -> outside x).
  { intros w' k Hk Hout Hw' j x Hj Hn. destruct (Nat.eq_dec j i) as [->|Hji].
    - rewrite Hsame in Hn. inversion Hn; subst. exact Hw'.
    - eapply Hout; [exact Hj|]. eapply Hother; eassumption. }
  destruct (w_pc w) as [|s pc'] eqn:Epc.
  - (* idle: start the next message *)
    destruct (w_todo w) as [|m r] eqn:Et; [exact (conj Hp (conj Hl (conj Hm Hlock)))|].
    inversion Hm1 as [|? ? Hmm Hr]; subst.
    assert (Hw' : msgs_ok limit {| w_pc := expected_send; w_todo := r; w_cur := Some m; w_off := 0 |}).
    { split; [exact Hr|]. split; [exact Hmm|]. intros _. discriminate. }
    assert (Hout' : outside {| w_pc := expected_send; w_todo := r; w_cur := Some m; w_off := 0 |}) by (right; reflexivity).
    mk_inv; [exact Hp|exact Hl|apply Hmsgs; exact Hw'|].
    destruct (lock wd) as [k|] eqn:Elk.
    + destruct Hlock as ((wk & Hwk & Hin) & Hout).
      assert (Hki : k <> i).
      { intros ->. rewrite Ew in Hwk. inversion Hwk; subst. destruct Hin as [Hin|Hin].
        - unfold inside in Hin. inv_pc Hin; try (rewrite Epc in Hin; discriminate); try contradiction.
          destruct Hin as ([Hin|Hin] & _); rewrite Epc in Hin; discriminate.
        - unfold after_write in Hin. rewrite Epc in Hin. discriminate. }
      split.
      * exists wk. split; [|exact Hin]. rewrite upd_writer_upd by exact Hi. rewrite nth_upd_other by exact Hki. exact Hwk.
      * apply Hkeep; assumption.
    + intros j x Hn. destruct (Nat.eq_dec j i) as [->|Hji].
      * rewrite Hsame in Hn. inversion Hn; subst. exact Hout'.
      * eapply Hlock. eapply Hother; eassumption.
  - (* a step of `send` *)
    assert (Hcur : w_cur w <> None) by (apply Hm3; discriminate).
    destruct (lock wd) as [k|] eqn:Elk.
    + destruct Hlock as ((wk & Hwk & Hin) & Hout).
      destruct (Nat.eq_dec i k) as [->|Hik].
      * (* the lock holder moves *)
        rewrite Ew in Hwk. inversion Hwk; subst wk. clear Hwk.
        assert (Hout' : forall (w' : writer) j x, j <> k -> nth_error (upd_writer (writers wd) k w') j = Some x -> outside x).
        { intros w' j x Hj Hn. eapply Hout; [exact Hj|]. eapply Hother; eassumption. }
        destruct Hin as [Hin|Hin].
        -- unfold inside in Hin. inv_pc Hin; try contradiction.
           ++ (* at Seek *) rewrite Epc in Hin. inversion Hin; subst s pc'.
              mk_inv; [exact Hp|exact Hl|apply Hmsgs; apply msgs_ok_step; assumption|].
              split; [|apply Hout'].
              eexists. split; [apply Hsame|]. left. right. left. reflexivity.
           ++ (* at Count *) rewrite Epc in Hin. inversion Hin; subst s pc'.
              mk_inv; [exact Hp|exact Hl|apply Hmsgs; apply msgs_ok_step; assumption|].
              split; [|apply Hout'].
              eexists. split; [apply Hsame|]. left. right. right. left. cbn.
              split; [left; reflexivity|]. split; [apply count_all; exact Hl|exact Hcur].
           ++ destruct Hin as ([Hin|Hin] & Hoff & _); rewrite Epc in Hin; inversion Hin; subst s pc'.
              ** (* at Marshal *)
                 mk_inv; [exact Hp|exact Hl|apply Hmsgs; apply msgs_ok_step; assumption|].
                 split; [|apply Hout'].
                 eexists. split; [apply Hsame|]. left. right. right. left. cbn.
                 split; [right; reflexivity|]. split; [exact Hoff|exact Hcur].
              ** (* at Write *)
                 destruct (w_cur w) as [[[tag id] len]|] eqn:Ec; [|contradiction].
                 cbn in Hm2.
                 mk_inv.
                 --- apply positions_app; [exact Hp|]. cbn. exact Hoff.
                 --- apply Forall_app. split; [exact Hl|]. constructor; [cbn; exact Hm2|constructor].
                 --- apply Hmsgs. split; [exact Hm1|]. split; [cbn; exact Hm2|]. intros _. cbn. discriminate.
                 --- split; [|apply Hout'].
                     eexists. split; [apply Hsame|]. right. reflexivity.
        -- (* at Unlock *)
           unfold after_write in Hin. rewrite Epc in Hin. inversion Hin; subst s pc'.
           mk_inv; [exact Hp|exact Hl|apply Hmsgs; apply msgs_ok_step; assumption|].
           rewrite Nat.eqb_refl.
           intros j x Hn. destruct (Nat.eq_dec j k) as [->|Hj].
           ++ rewrite Hsame in Hn. inversion Hn; subst. left. reflexivity.
           ++ eapply Hout; [exact Hj|]. eapply Hother; eassumption.
      * (* another writer: it is outside, so it is at Lock and blocked *)
        pose proof (Hout i w Hik Ew) as [Ho|Ho]; rewrite Epc in Ho; [discriminate|].
        inversion Ho; subst s pc'.
        refine (conj Hp (conj Hl (conj Hm _))). rewrite Elk. split; [exists wk; auto|exact Hout].
    + (* lock free: the writer is outside, i.e. at Lock: it takes the lock *)
      pose proof (Hlock i w Ew) as [Ho|Ho]; rewrite Epc in Ho; [discriminate|].
      inversion Ho; subst s pc'.
      mk_inv; [exact Hp|exact Hl|apply Hmsgs; apply msgs_ok_step; assumption|].
      split.
      * eexists. split; [apply Hsame|]. left. left. reflexivity.
      * intros j x Hj Hn. eapply Hlock. eapply Hother; eassumption.
Qed.

(* every schedule of every number of writers: offsets are positions, no line exceeds the limit *)
Theorem concurrent_sends_ok limit wd sched :
  Inv limit wd -> Inv limit (run_sched expected_send limit wd sched).
Proof.
  revert wd. induction sched as [|i r IH]; intros wd H; cbn [run_sched fold_left]; [exact H|].
  apply IH. apply sched_step_inv. exact H.
Qed.

(* previously written entries never change *)
Lemma sched_step_prefix prog limit wd i : exists tail, file (sched_step prog limit wd i) = file wd ++ tail.
Proof.
  assert (Hnil : forall f : list entry, f = f ++ []) by (intros f; rewrite app_nil_r; reflexivity).
  unfold sched_step. destruct (nth_error (writers wd) i) as [w|]; [|exists []; apply Hnil].
  destruct (w_pc w) as [|s pc'].
  - destruct (w_todo w); exists []; cbn; apply Hnil.
  - destruct s; try (exists []; cbn; apply Hnil).
    + destruct (lock wd); exists []; cbn; apply Hnil.
    + destruct (w_cur w) as [[[tag id] len]|]; [eexists; reflexivity|exists []; apply Hnil].
Qed.

Theorem append_only prog limit wd sched : exists tail, file (run_sched prog limit wd sched) = file wd ++ tail.
Proof.
  revert wd. induction sched as [|i r IH]; intros wd; cbn [run_sched fold_left]; [exists []; rewrite app_nil_r; reflexivity|].
  destruct (sched_step_prefix prog limit wd i) as [t1 H1]. destruct (IH (sched_step prog limit wd i)) as [t2 H2].
  exists (t1 ++ t2). unfold run_sched in *. rewrite H2, H1, app_assoc. reflexivity.
Qed.

(* an initial world: any file that is well formed, lock free, n idle writers with admissible messages *)
Lemma initial_inv limit f todo :
  positions_ok f -> lines_ok limit f -> Forall (Forall (fun m => snd m <= limit)) todo ->
  Inv limit {| file := f; lock := None;
               writers := map (fun t => {| w_pc := []; w_todo := t; w_cur := None; w_off := 0 |}) todo |}.
Proof.
  intros Hp Hl Ht. repeat split; cbn [file lock writers]; auto.
  - apply nth_error_In in H. apply in_map_iff in H as (t & <- & Hin). cbn.
    rewrite Forall_forall in Ht. apply Ht. exact Hin.
  - apply nth_error_In in H. apply in_map_iff in H as (t & <- & Hin). exact I.
  - apply nth_error_In in H. apply in_map_iff in H as (t & <- & Hin). cbn. congruence.
  - intros j w Hn. apply nth_error_In in Hn. apply in_map_iff in Hn as (t & <- & Hin). left. reflexivity.
Qed.
