(* C04 - everything that leaves the airgapped machine, as symbolic terms.
   A term records WHERE secret values occur: in the clear (Sec), only as the input of a one-way
   function (group exponentiation, a signature: OneWay), or inside a ciphertext (Enc) that one key
   opens.  `shape` is the printed structure that the harness compares with the structure of the
   real result files (fields, nesting, byte lengths, and who can open which ciphertext).
   Definitions only. *)
From Coq Require Import String List Arith Bool.
Import ListNotations.
Local Open Scope string_scope.
Local Open Scope list_scope.

Inductive key :=
| KPart (j : nat)      (* the long-term DKG key of participant j (ECIES and the VSS layer) *)
| KPass.               (* the key derived from the operator's password (scrypt + AES-GCM) *)

Inductive secret :=
| SSeed | SLongKey | SPassword
| SCoeff (k : nat)     (* coefficient k of this machine's secret polynomial *)
| SSub (j : nat)       (* this machine's polynomial evaluated for participant j *)
| SShare.              (* the BLS share of the round *)

Inductive term :=
| Pub (shape : string)                           (* public data of the printed shape *)
| Sec (s : secret)                               (* the value itself *)
| OneWay (shape : string) (from : list secret)   (* g^x, signatures: computed from secrets, not invertible *)
| Enc (k : key) (body : term)
| Fld (name : string) (v : term)
| Obj (fields : list term)
| Arr (items : list term).

Definition key_eqb (a b : key) : bool :=
  match a, b with
  | KPart i, KPart j => Nat.eqb i j
  | KPass, KPass => true
  | _, _ => false
  end.

Fixpoint join (sep : string) (l : list string) : string :=
  match l with
  | [] => ""
  | [x] => x
  | x :: r => x ++ sep ++ join sep r
  end.

Fixpoint shape (t : term) : string :=
  match t with
  | Pub s => s
  | Sec _ => "SECRET"
  | OneWay s _ => s
  | Enc _ b => "enc(" ++ shape b ++ ")"
  | Fld n v => n ++ ":" ++ shape v
  | Obj l => "{" ++ join "," (map shape l) ++ "}"
  | Arr l => "[" ++ join "," (map shape l) ++ "]"
  end.

(* the secrets somebody holding the keys ks can read off a term *)
Fixpoint readable (ks : list key) (t : term) : list secret :=
  match t with
  | Pub _ => []
  | Sec s => [s]
  | OneWay _ _ => []
  | Enc k b => if existsb (key_eqb k) ks then readable ks b else []
  | Fld _ v => readable ks v
  | Obj l => flat_map (readable ks) l
  | Arr l => flat_map (readable ks) l
  end.

(* ---- the result operations (airgapped/dkg.go, bls.go, airgapped.go) ---- *)
Inductive optype := OCommits | ODeals | OResponses | OMasterKey | OSigning | OReinit.

Record msg := { mg_class : string;   (* bcast | self | to (another participant) *)
                mg_to : option nat;  (* the addressee *)
                mg_event : string; mg_body : term }.
Record result := { rs_event : string; rs_extra : option term; rs_msgs : list msg }.

Definition b48 := "b48".
Definition commit_of (k : nat) : term := OneWay b48 [SCoeff k].
Definition commits (t : nat) : term := Arr (map commit_of (seq 0 t)).
(* the group's public polynomial: sums of all dealers' commitments *)
Definition pubpoly (t : nat) : term :=
  Obj [Fld "commitments" (Arr (map (fun k => OneWay b48 [SCoeff k]) (seq 0 t))); Fld "share" (Pub "null")].

Definition std (fields : list term) : term :=   (* every request carries these two *)
  Obj fields.
Definition created := Fld "CreatedAt" (Pub "s").
Definition pid := Fld "ParticipantId" (Pub "n").

Definition ev_commit := "event_dkg_commit_confirm_received".
Definition ev_deal := "event_dkg_deal_confirm_received".
Definition ev_response := "event_dkg_response_confirm_received".
Definition ev_master := "event_dkg_master_key_confirm_received".
Definition ev_partial := "event_signing_partial_sign_received".
Definition ev_processed := "operation_processed_successfully".

Definition err_event (o : optype) : string :=
  match o with
  | OCommits => "event_dkg_commit_confirm_canceled_by_error"
  | ODeals => "event_dkg_deal_confirm_canceled_by_error"
  | OResponses => "event_dkg_response_confirm_canceled_by_error"
  | OMasterKey => "event_dkg_master_key_confirm_canceled_by_error"
  | OSigning => "event_signing_partial_sign_error_received"
  | OReinit => ""
  end.

(* the private deal for participant j: ECIES to j's key around kyber's own encrypted deal *)
Definition deal_for (t j : nat) : term :=
  Enc (KPart j)
    (Obj [Fld "Deal" (Obj [Fld "Cipher" (Enc (KPart j)
                             (Obj [Fld "Commitments" (commits t); Fld "SecShare" (Sec (SSub j));
                                   Fld "SessionID" (Pub "b32"); Fld "T" (Pub "n")]));
                           Fld "DHKey" (Pub b48); Fld "Nonce" (Pub "b12");
                           Fld "Signature" (OneWay "b80" [SLongKey])]);
          Fld "Index" (Pub "n")]).

Definition others (n me : nat) : list nat := filter (fun j => negb (Nat.eqb j me)) (seq 0 n).

Definition response_entry : term :=
  Obj [Fld "Index" (Pub "n");
       Fld "Response" (Obj [Fld "Index" (Pub "n"); Fld "SessionID" (Pub "b32");
                            Fld "Signature" (OneWay "b80" [SLongKey]); Fld "Status" (Pub "t")])].

Definition result_of (o : optype) (n t me nm : nat) (err : bool) : result :=
  if err then
    {| rs_event := err_event o; rs_extra := None;
       rs_msgs := [{| mg_class := "bcast"; mg_to := None; mg_event := err_event o;
                      mg_body := Obj [created; Fld "Error" (Pub "s"); pid] |}] |}
  else
  match o with
  | OCommits =>
      {| rs_event := ev_commit; rs_extra := None;
         rs_msgs := [{| mg_class := "bcast"; mg_to := None; mg_event := ev_commit;
                        mg_body := Obj [Fld "Commit" (commits t); created; pid] |}] |}
  | ODeals =>
      {| rs_event := ev_deal; rs_extra := None;
         rs_msgs := {| mg_class := "self"; mg_to := Some me; mg_event := ev_deal;
                       mg_body := Obj [created; Fld "Deal" (Pub "selfconfirm"); pid] |}
                    :: map (fun j => {| mg_class := "to"; mg_to := Some j; mg_event := ev_deal;
                                        mg_body := Obj [created; Fld "Deal" (deal_for t j); pid] |})
                           (others n me) |}
  | OResponses =>
      {| rs_event := ev_response; rs_extra := None;
         rs_msgs := [{| mg_class := "bcast"; mg_to := None; mg_event := ev_response;
                        mg_body := Obj [created; pid;
                                        Fld "Response" (Arr (map (fun _ => response_entry) (others n me)))] |}] |}
  | OMasterKey =>
      {| rs_event := ev_master; rs_extra := None;
         rs_msgs := [{| mg_class := "bcast"; mg_to := None; mg_event := ev_master;
                        mg_body := Obj [created; Fld "MasterKey" (OneWay b48 [SCoeff 0]); pid;
                                        Fld "PubPolyBz" (pubpoly t)] |}] |}
  | OSigning =>
      {| rs_event := ev_partial; rs_extra := None;
         rs_msgs := [{| mg_class := "bcast"; mg_to := None; mg_event := ev_partial;
                        mg_body := Obj [Fld "BatchID" (Pub "s"); created;
                                        Fld "PartialSigns" (Arr (map (fun _ => Obj [Fld "MessageID" (Pub "s");
                                                                                    Fld "Sign" (OneWay "b98" [SShare])])
                                                                     (seq 0 nm)));
                                        pid] |}] |}
  | OReinit =>
      {| rs_event := ev_processed; rs_extra := Some (pubpoly t); rs_msgs := [] |}
  end.

Definition msg_line (m : msg) : string := mg_class m ++ " " ++ mg_event m ++ " " ++ shape (mg_body m).
Definition result_line (r : result) : string :=
  "event=" ++ rs_event r ++ " extra=" ++ match rs_extra r with Some x => shape x | None => "null" end
  ++ " msgs=[" ++ join "; " (map msg_line (rs_msgs r)) ++ "]".

(* every term that leaves the machine with a result *)
Definition result_terms (r : result) : list term :=
  match rs_extra r with Some x => [x] | None => [] end ++ map mg_body (rs_msgs r).

(* ---- the database (airgapped/storage.go, types.go) ---- *)
Definition keyring (t : nat) : term :=
  Obj [Fld "commitments" (Arr (map (fun k => OneWay b48 [SCoeff k]) (seq 0 t))); Fld "share" (Sec SShare)].
Definition database (t : nat) : list (string * term) :=
  [("private_key", Enc KPass (Sec SLongKey)); ("public_key", Enc KPass (Pub b48)); ("salt_key", Pub "b32");
   ("base_seed_key", Sec SSeed);                           (* the seed is stored as it is *)
   ("bls_keyring", Enc KPass (keyring t)); ("operations_log", Pub "requests")].

(* password protection: AES-GCM under a key derived from the password opens with that password only
   (authenticated encryption is assumed perfect here; the harness tries wrong passwords) *)
Definition open_with (pw stored_pw : nat) (t : term) : option term :=
  match t with
  | Enc KPass b => if Nat.eqb pw stored_pw then Some b else None
  | _ => Some t
  end.

(* ---- where key material comes from (airgapped/dkg.go, dkg/dkg.go InitDKGInstance) ---- *)
Record round_cfg := { rc_id : nat; rc_t : nat; rc_machines : list nat }.   (* machines in participant order *)

Inductive source :=
| FromSeed (machine pos : nat)              (* the pos-th draw of the stream seeded with the machine's seed ALONE *)
| FromRoundSuite (machine id pos : nat).    (* a draw of the suite seeded with sha256(round id ++ seed) *)

(* the dealer's polynomial: frand.NewCustom(am.baseSeed) - the round id does not enter *)
Definition coeff_source (c : round_cfg) (machine k : nat) : source := FromSeed machine k.
(* ephemeral keys / nonces of the deals: the per-round suite *)
Definition deal_randomness (c : round_cfg) (machine pos : nat) : source := FromRoundSuite machine (rc_id c) pos.

Fixpoint insert_sorted (x : nat) (l : list nat) : list nat :=
  match l with
  | [] => [x]
  | y :: r => if Nat.leb x y then x :: l else y :: insert_sorted x r
  end.
Definition sorted (l : list nat) : list nat := fold_right insert_sorted [] l.

(* the group key is the sum of the constant terms of the participating machines *)
Definition group_key_source (c : round_cfg) : list source := map (fun m => FromSeed m 0) (sorted (rc_machines c)).
(* the share of the participant at position x: sum over all dealers of their polynomial (degree t-1) at x *)
Definition share_source (c : round_cfg) (x : nat) : list source * nat :=
  (flat_map (fun m => map (FromSeed m) (seq 0 (rc_t c))) (sorted (rc_machines c)), x).

Definition source_eqb (a b : source) : bool :=
  match a, b with
  | FromSeed m p, FromSeed m' p' => Nat.eqb m m' && Nat.eqb p p'
  | FromRoundSuite m i p, FromRoundSuite m' i' p' => Nat.eqb m m' && Nat.eqb i i' && Nat.eqb p p'
  | _, _ => false
  end.
Fixpoint sources_eqb (a b : list source) : bool :=
  match a, b with
  | [], [] => true
  | x :: a', y :: b' => source_eqb x y && sources_eqb a' b'
  | _, _ => false
  end.

Fixpoint index_of (x : nat) (l : list nat) : option nat :=
  match l with
  | [] => None
  | y :: r => if Nat.eqb x y then Some 0 else option_map S (index_of x r)
  end.

(* which key material of two rounds coincides, per machine present in both (in the order of the first) *)
Definition common (c1 c2 : round_cfg) : list nat :=
  filter (fun m => existsb (Nat.eqb m) (rc_machines c2)) (rc_machines c1).
Definition coeffs_coincide (c1 c2 : round_cfg) : list bool :=
  map (fun m => forallb (fun k => source_eqb (coeff_source c1 m k) (coeff_source c2 m k))
                        (seq 0 (Nat.min (rc_t c1) (rc_t c2)))) (common c1 c2).
Definition group_coincides (c1 c2 : round_cfg) : bool := sources_eqb (group_key_source c1) (group_key_source c2).
Definition shares_coincide (c1 c2 : round_cfg) : list bool :=
  map (fun m => match index_of m (rc_machines c1), index_of m (rc_machines c2) with
                | Some x1, Some x2 => sources_eqb (fst (share_source c1 x1)) (fst (share_source c2 x2)) && Nat.eqb x1 x2
                | _, _ => false
                end) (common c1 c2).
