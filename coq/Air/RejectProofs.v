From Coq Require Import List Bool Arith.
Require Import Air.Reject.
Import ListNotations.

(* a rejected operation file changes nothing: not the instances, not the log *)
Theorem rejected_changes_nothing m o m' : aprocess m o = (m', ARejected) -> m' = m.
Proof.
  unfold aprocess. destruct (handler m o) as [ok rounds']. destruct ok; [discriminate|].
  destruct (existsb _ rounds'); [discriminate|]. intros H. inversion H. reflexivity.
Qed.

(* hence everything fed afterwards is answered as if the rejected file had never been fed *)
Theorem rejected_then_rest m o rest :
  snd (aprocess m o) = ARejected -> afeed m (o :: rest) = (fst (afeed m rest), ARejected :: snd (afeed m rest)).
Proof.
  intros H. cbn [afeed]. destruct (aprocess m o) as [m' c] eqn:E. cbn in H. subst c.
  rewrite (rejected_changes_nothing _ _ _ E). destruct (afeed m rest). reflexivity.
Qed.

(* a malformed first operation of a round (no instance yet) is rejected, never answered *)
Theorem malformed_commits_rejected m r :
  has_inst m r = false -> snd (aprocess m {| ao_kind := KCommits; ao_round := r; ao_wellformed := false |}) = ARejected.
Proof.
  intros H. unfold aprocess, handler. cbn [ao_kind ao_round ao_wellformed]. rewrite H.
  unfold has_inst in H. rewrite H. reflexivity.
Qed.

(* an error result never removes or adds an instance, so the machine keeps answering the round *)
Theorem error_result_keeps_instances m o m' : aprocess m o = (m', AErrorResult) -> am_rounds m' = am_rounds m.
Proof.
  unfold aprocess, handler. destruct (ao_kind o); destruct (has_inst m (ao_round o)) eqn:Hh; cbn;
    destruct (ao_wellformed o); cbn; try discriminate;
    try (destruct (existsb _ (am_rounds m)); intros H; inversion H; reflexivity).
Qed.
