(* C11 / C18 on the reinitialisation path of the airgapped machine. *)
From Coq Require Import List Bool Arith Lia.
Require Import Air.Reinit.
Import ListNotations.

Lemma mem_cons r x l : mem r (x :: l) = Nat.eqb r x || mem r l.
Proof. reflexivity. Qed.

(* one step touches the round it names only *)
Lemma rstep_other m o r :
  r <> ri_round o ->
  mem r (rm_inst (fst (rstep m o))) = mem r (rm_inst m) /\ mem r (rm_shares (fst (rstep m o))) = mem r (rm_shares m).
Proof.
  intros Hne. unfold rstep. destruct (ri_kind o).
  - destruct (mem (ri_round o) (rm_inst m)); [auto|]. destruct (ri_ok o); [|auto]. cbn [fst rm_inst rm_shares].
    rewrite mem_cons. destruct (Nat.eqb_spec r (ri_round o)); [contradiction|]. auto.
  - auto.
  - auto.
  - destruct (mem (ri_round o) (rm_inst m) && ri_ok o); [|auto]. cbn [fst rm_inst rm_shares].
    rewrite mem_cons. destruct (Nat.eqb_spec r (ri_round o)); [contradiction|]. auto.
Qed.

(* C18: whatever the reinit operation embeds and however it ends, no round but the one it names gains
   or loses an instance or a key share (before the repair a refused reinit file left the key share of
   the embedded operations' round in the database) *)
Theorem reinit_touches_only_its_round outer m ops r :
  r <> outer ->
  mem r (rm_inst (fst (handle_reinit outer m ops))) = mem r (rm_inst m) /\
  mem r (rm_shares (fst (handle_reinit outer m ops))) = mem r (rm_shares m).
Proof.
  intros Hne. unfold handle_reinit.
  assert (H : mem r (rm_inst (fst (reinit_run outer m ops))) = mem r (rm_inst m) /\
              mem r (rm_shares (fst (reinit_run outer m ops))) = mem r (rm_shares m)).
  { revert m. induction ops as [|o rest IH]; intros m; cbn [reinit_run]; [auto|].
    destruct (Nat.eqb_spec (ri_round o) outer) as [E|E]; [|apply IH].
    assert (Hne' : r <> ri_round o) by congruence.
    pose proof (rstep_other m o r Hne') as [H1 H2].
    destruct (rstep m o) as [m' ok]. cbn [fst] in H1, H2. destruct ok; cbn [fst].
    - destruct (IH m') as [I1 I2]. rewrite I1, I2. auto.
    - auto. }
  destruct (reinit_run outer m ops) as [m' ok]. exact H.
Qed.

(* C11: the operation ends successfully only if EVERY embedded operation of its round was carried
   out - no refusal is swallowed - and the round's key share is in the database *)
Theorem reinit_success_means_all_accepted outer m ops m' :
  handle_reinit outer m ops = (m', true) ->
  (forall o, In o ops -> ri_round o = outer -> ri_ok o = true) /\ mem outer (rm_shares m') = true.
Proof.
  unfold handle_reinit. destruct (reinit_run outer m ops) as [m1 ok] eqn:E. intros H.
  assert (Hm : m1 = m') by congruence. assert (Hb : ok && mem outer (rm_shares m1) = true) by congruence. subst m1.
  apply andb_prop in Hb as [Hok Hs]. subst ok. split; [|exact Hs]. clear H Hs.
  revert m E. induction ops as [|o rest IH]; intros m E x Hin Hr; [contradiction|].
  cbn [reinit_run] in E. destruct (Nat.eqb_spec (ri_round o) outer) as [Eo|Eo].
  - destruct (rstep m o) as [m2 ok2] eqn:Es. destruct ok2; [|discriminate].
    destruct Hin as [<-|Hin]; [|eapply IH; eassumption].
    unfold rstep in Es. destruct (ri_kind o).
    + destruct (mem _ _); [discriminate|]. destruct (ri_ok o); [reflexivity|discriminate].
    + assert (Hb : mem (ri_round o) (rm_inst m) && ri_ok o = true) by congruence.
      apply andb_prop in Hb as [_ Hb]. exact Hb.
    + assert (Hb : mem (ri_round o) (rm_inst m) && ri_ok o = true) by congruence.
      apply andb_prop in Hb as [_ Hb]. exact Hb.
    + destruct (mem _ _ && ri_ok o) eqn:Ea; [|discriminate]. apply andb_prop in Ea as [_ Ea]. exact Ea.
  - destruct Hin as [<-|Hin]; [contradiction|]. eapply IH; eassumption.
Qed.

(* C11: a refusal before the round's master-key step - e.g. a private deal that contradicts its
   dealer's commitments at the responses step - leaves no key share behind *)
Theorem refusal_before_master_key_stores_no_share outer m pre bad post :
  mem outer (rm_shares m) = false ->
  (forall o, In o pre -> ri_round o = outer -> ri_kind o <> IkMaster) ->
  ri_round bad = outer -> ri_ok bad = false ->
  let res := handle_reinit outer m (pre ++ bad :: post) in
  snd res = false /\ mem outer (rm_shares (fst res)) = false.
Proof.
  intros Hs Hpre Hr Hbad. cbn zeta. unfold handle_reinit.
  assert (H : snd (reinit_run outer m (pre ++ bad :: post)) = false /\
              mem outer (rm_shares (fst (reinit_run outer m (pre ++ bad :: post)))) = false).
  { revert m Hs. induction pre as [|o rest IH]; intros m Hs; cbn [app reinit_run].
    - rewrite Hr, Nat.eqb_refl.
      assert (Hf : rstep m bad = (m, false)).
      { unfold rstep. rewrite Hbad. destruct (ri_kind bad); try (rewrite andb_false_r; reflexivity).
        destruct (mem (ri_round bad) (rm_inst m)); reflexivity. }
      rewrite Hf. cbn. auto.
    - assert (Hrest : forall o', In o' rest -> ri_round o' = outer -> ri_kind o' <> IkMaster)
        by (intros o' Hi; apply Hpre; right; exact Hi).
      destruct (Nat.eqb_spec (ri_round o) outer) as [Eo|Eo]; [|apply (IH Hrest); exact Hs].
      assert (Hk : ri_kind o <> IkMaster) by (apply Hpre; [left; reflexivity|exact Eo]).
      assert (Hkeep : rm_shares (fst (rstep m o)) = rm_shares m).
      { unfold rstep. destruct (ri_kind o); try contradiction; try reflexivity.
        destruct (mem (ri_round o) (rm_inst m)); [reflexivity|]. destruct (ri_ok o); reflexivity. }
      destruct (rstep m o) as [m2 ok2]. cbn [fst] in Hkeep. destruct ok2.
      + apply (IH Hrest). rewrite Hkeep. exact Hs.
      + cbn. rewrite Hkeep. auto. }
  destruct (reinit_run outer m (pre ++ bad :: post)) as [m' ok]. cbn [fst snd] in *.
  destruct H as [-> H]. cbn. auto.
Qed.

(* non-vacuity: the honest log of a round restores its share; with the responses step refused the
   operation fails and nothing is stored; under another outer identifier nothing is carried out *)
Example reinit_examples :
  let log := [ {| ri_kind := IkCommits; ri_round := 7; ri_ok := true |}; {| ri_kind := IkDeals; ri_round := 7; ri_ok := true |};
               {| ri_kind := IkResponses; ri_round := 7; ri_ok := true |}; {| ri_kind := IkMaster; ri_round := 7; ri_ok := true |} ] in
  let bad := [ {| ri_kind := IkCommits; ri_round := 7; ri_ok := true |}; {| ri_kind := IkDeals; ri_round := 7; ri_ok := true |};
               {| ri_kind := IkResponses; ri_round := 7; ri_ok := false |}; {| ri_kind := IkMaster; ri_round := 7; ri_ok := true |} ] in
  handle_reinit 7 fresh_rmach log = ({| rm_inst := [7]; rm_shares := [7] |}, true) /\
  handle_reinit 7 fresh_rmach bad = ({| rm_inst := [7]; rm_shares := [] |}, false) /\
  handle_reinit 8 fresh_rmach log = (fresh_rmach, false).
Proof. vm_compute. repeat split. Qed.
