(* The airgapped machine's handler of a reinit operation (airgapped/dkg.go handleReinitDKG, repaired
   tree): the operations of the restored round are carried out again, in order; an embedded operation
   of ANOTHER round is not carried out; the first one that is refused ends the reinitialisation; at the
   end the round's key share must be in the database.  Definitions only. *)
From Coq Require Import List Bool Arith.
Import ListNotations.

(* instances in memory, key shares in the database: both per round *)
Record rmach := { rm_inst : list nat; rm_shares : list nat }.

Inductive rkind := IkCommits | IkDeals | IkResponses | IkMaster.
(* ri_ok: the step's own handler finds nothing wrong with its payload (for the responses step: every
   private deal is consistent with its dealer's broadcast commitments - Crypto/DealCheck.v) *)
Record rinner := { ri_kind : rkind; ri_round : nat; ri_ok : bool }.

Definition mem (r : nat) (l : list nat) : bool := existsb (Nat.eqb r) l.

(* one embedded operation: the new machine state, and whether it was carried out *)
Definition rstep (m : rmach) (o : rinner) : rmach * bool :=
  match ri_kind o with
  | IkCommits =>
      if mem (ri_round o) (rm_inst m) then (m, false)          (* "dkg instance already exists" *)
      else if ri_ok o then ({| rm_inst := ri_round o :: rm_inst m; rm_shares := rm_shares m |}, true)
      else (m, false)
  | IkMaster =>
      if mem (ri_round o) (rm_inst m) && ri_ok o
      then ({| rm_inst := rm_inst m; rm_shares := ri_round o :: rm_shares m |}, true)   (* saveBLSKeyring *)
      else (m, false)
  | _ => (m, mem (ri_round o) (rm_inst m) && ri_ok o)
  end.

Fixpoint reinit_run (outer : nat) (m : rmach) (ops : list rinner) : rmach * bool :=
  match ops with
  | [] => (m, true)
  | o :: r =>
      if Nat.eqb (ri_round o) outer then
        let (m', ok) := rstep m o in
        if ok then reinit_run outer m' r else (m', false)
      else reinit_run outer m r
  end.

(* handleReinitDKG: true = the operation ends with `operation_processed_successfully` *)
Definition handle_reinit (outer : nat) (m : rmach) (ops : list rinner) : rmach * bool :=
  let (m', ok) := reinit_run outer m ops in
  (m', ok && mem outer (rm_shares m')).

Definition fresh_rmach : rmach := {| rm_inst := []; rm_shares := [] |}.
