(* C04 - the machine lock (cmd/airgapped + Machine.DropSensitiveData): an operator command holds
   the lock from its start to its end, entering the password first when it has been dropped; the
   password-expiry tick takes the same lock before it clears the password.  Definitions only. *)
From Coq Require Import List Bool.
Import ListNotations.

Inductive owner := Free | ByCmd | ByTick.
Inductive cpc := C0 | C1 | C2 | C3.   (* acquire; ensure password; save keyring; release *)
Inductive tpc := T0 | T1 | T2.        (* acquire; drop; release *)

Record lstate := { lk : owner; enc : bool (* password present *);
                   cmd : cpc; tick : tpc; saved : list bool (* keyring saved under the password? *) }.

Definition linit : lstate := {| lk := Free; enc := true; cmd := C0; tick := T0; saved := [] |}.

(* one step of the chosen thread (true: the command, false: the tick); a thread that cannot take
   the lock does not move *)
Definition lstep (s : lstate) (who : bool) : lstate :=
  if who then
    match cmd s with
    | C0 => match lk s with
            | Free => {| lk := ByCmd; enc := enc s; cmd := C1; tick := tick s; saved := saved s |}
            | _ => s
            end
    | C1 => {| lk := lk s; enc := true; cmd := C2; tick := tick s; saved := saved s |}
    | C2 => {| lk := lk s; enc := enc s; cmd := C3; tick := tick s; saved := saved s ++ [enc s] |}
    | C3 => {| lk := Free; enc := enc s; cmd := C0; tick := tick s; saved := saved s |}
    end
  else
    match tick s with
    | T0 => match lk s with
            | Free => {| lk := ByTick; enc := enc s; cmd := cmd s; tick := T1; saved := saved s |}
            | _ => s
            end
    | T1 => {| lk := lk s; enc := false; cmd := cmd s; tick := T2; saved := saved s |}
    | T2 => {| lk := Free; enc := enc s; cmd := cmd s; tick := T0; saved := saved s |}
    end.

Definition lrun (sched : list bool) : lstate := fold_left lstep sched linit.

(* observable on the implementation: a tick that fires while a command holds the lock waits *)
Definition tick_waits_during_command : bool :=
  let s := lstep linit true in                    (* the command has started *)
  match tick (lstep s false) with T0 => true | _ => false end.
