(* C04 - the machine lock (cmd/airgapped/main.go run() + Machine.DropSensitiveData).  For every
   command the prompt (1) takes the lock, asks for the password if it has been dropped, releases the
   lock (enterEncryptionPasswordIfNeeded); (2) takes the lock AGAIN, runs the command handler, releases
   it (terExe).  The password-expiry tick takes the same lock before it clears the password.
   Definitions only. *)
From Coq Require Import List Bool.
Import ListNotations.

Inductive owner := Free | ByCmd | ByTick.
Inductive cpc := C0 | C1 | C2 | C3 | C4 | C5.
  (* C0 acquire; C1 ensure password; C2 release;   C3 acquire; C4 save keyring; C5 release *)
Inductive tpc := T0 | T1 | T2.        (* acquire; drop; release *)

Record lstate := { lk : owner; enc : bool (* password present *);
                   cmd : cpc; tick : tpc; saved : list bool (* keyring saved under the password? *) }.

Definition linit : lstate := {| lk := Free; enc := true; cmd := C0; tick := T0; saved := [] |}.

(* one step of the chosen thread (true: the command, false: the tick); a thread that cannot take
   the lock does not move *)
Definition lstep (s : lstate) (who : bool) : lstate :=
  if who then
    match cmd s with
    | C0 => match lk s with
            | Free => {| lk := ByCmd; enc := enc s; cmd := C1; tick := tick s; saved := saved s |}
            | _ => s
            end
    | C1 => {| lk := lk s; enc := true; cmd := C2; tick := tick s; saved := saved s |}
    | C2 => {| lk := Free; enc := enc s; cmd := C3; tick := tick s; saved := saved s |}
    | C3 => match lk s with
            | Free => {| lk := ByCmd; enc := enc s; cmd := C4; tick := tick s; saved := saved s |}
            | _ => s
            end
    | C4 => {| lk := lk s; enc := enc s; cmd := C5; tick := tick s; saved := saved s ++ [enc s] |}
    | C5 => {| lk := Free; enc := enc s; cmd := C0; tick := tick s; saved := saved s |}
    end
  else
    match tick s with
    | T0 => match lk s with
            | Free => {| lk := ByTick; enc := enc s; cmd := cmd s; tick := T1; saved := saved s |}
            | _ => s
            end
    | T1 => {| lk := lk s; enc := false; cmd := cmd s; tick := T2; saved := saved s |}
    | T2 => {| lk := Free; enc := enc s; cmd := cmd s; tick := T0; saved := saved s |}
    end.

Definition lrun_from (s : lstate) (sched : list bool) : lstate := fold_left lstep sched s.
Definition lrun (sched : list bool) : lstate := lrun_from linit sched.

(* observable on the implementation: a tick that fires while a command holds the lock waits *)
Definition tick_waits_during_command : bool :=
  let s := lrun [true; true; true; true] in       (* the command is inside its handler section *)
  match tick (lstep s false) with T0 => true | _ => false end.

(* the schedule in which the tick falls between the password check and the command *)
Definition gap_schedule : list bool := [true; true; true; false; false; false; true; true].
Definition gap_saves_without_password : bool :=
  match saved (lrun gap_schedule) with [false] => true | _ => false end.

(* a schedule in which the tick takes no step while the command is between its two sections *)
Fixpoint gapless_from (s : lstate) (sched : list bool) : bool :=
  match sched with
  | [] => true
  | who :: r => (who || negb (match cmd s with C3 => true | _ => false end)) && gapless_from (lstep s who) r
  end.
