(* The airgapped machine's log / replay bookkeeping (airgapped.go: ProcessOperation,
   ReplayOperationsLog, storeOperation), generic in the deterministic handlers.  Definitions only. *)
From Coq Require Import List Bool.
Import ListNotations.

Section Air.
Variables (seed op vstate out : Type).
Variable v0 : vstate.                                  (* no DKG instances *)
Variable handle : seed -> vstate -> op -> vstate * out. (* GetOperationResult: a function of seed, instances, operation *)
Variable is_signing : op -> bool.

Record machine := { m_seed : seed; m_log : list op; m_vol : vstate }.

(* ProcessOperation(op, storeOperation) *)
Definition process (store : bool) (m : machine) (o : op) : machine * out :=
  let (v', r) := handle (m_seed m) (m_vol m) o in
  ({| m_seed := m_seed m;
      m_log := if store && negb (is_signing o) then m_log m ++ [o] else m_log m;
      m_vol := v' |}, r).

Fixpoint feed (store : bool) (m : machine) (ops : list op) : machine * list out :=
  match ops with
  | [] => (m, [])
  | o :: r => let (m', x) := process store m o in
              let (m'', xs) := feed store m' r in (m'', x :: xs)
  end.

(* stop and reopen: the volatile instances are gone, seed and log come back from the database *)
Definition restart (m : machine) : machine := {| m_seed := m_seed m; m_log := m_log m; m_vol := v0 |}.
(* ReplayOperationsLog: every logged operation is processed again, without being stored again *)
Definition replay (m : machine) : machine * list out := feed false m (m_log m).

Definition fresh (s : seed) : machine := {| m_seed := s; m_log := []; m_vol := v0 |}.
End Air.

(* bookkeeping instance used by the harness: operations are kinds, the volatile state is the list
   of non-signing kinds processed since the last (re)start, outputs are that list's length *)
Definition kinds_handle (_ : unit) (v : list nat) (o : nat) : list nat * nat :=
  if Nat.eqb o 9 then (v, length v) else (v ++ [o], length (v ++ [o])).
Definition kinds_signing (o : nat) : bool := Nat.eqb o 9.

(* script: Some o = feed o with storing, None = stop, reopen, replay *)
Fixpoint run_script (m : machine unit nat (list nat)) (s : list (option nat)) : list (nat * nat) :=
  match s with
  | [] => []
  | Some o :: r => let (m', _) := process unit nat (list nat) nat kinds_handle kinds_signing true m o in
                   (length (m_log _ _ _ m'), length (m_vol _ _ _ m')) :: run_script m' r
  | None :: r => let (m', _) := replay unit nat (list nat) nat kinds_handle kinds_signing (restart unit nat (list nat) [] m) in
                 (length (m_log _ _ _ m'), length (m_vol _ _ _ m')) :: run_script m' r
  end.
