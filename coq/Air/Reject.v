(* C18 (airgapped side): what becomes of an operation file the machine cannot carry out
   (airgapped.go GetOperationResult / writeErrorRequestToOperation / ProcessOperation).
   The volatile state is the set of rounds that have a DKG instance; a handler either succeeds or
   fails; a failure is answered with an error RESULT when the machine knows its participant id for
   the round (an instance exists), otherwise the operation is REJECTED (ProcessOperation returns an
   error, nothing is logged, no result file).  Definitions only. *)
From Coq Require Import List Bool Arith.
Import ListNotations.

Inductive okind := KCommits | KLater | KSigning.   (* commits creates the instance; later DKG steps and signing need it *)
Record aop := { ao_kind : okind; ao_round : nat; ao_wellformed : bool }.   (* wellformed: the handler finds nothing wrong *)

Record amach := { am_rounds : list nat; am_log : list aop }.

Inductive aclass := AOk | AErrorResult | ARejected.

Definition has_inst (m : amach) (r : nat) : bool := existsb (Nat.eqb r) (am_rounds m).

(* the handler: does it succeed, and which rounds have an instance afterwards.  The commits handler
   registers the instance as its LAST step, so a failing one leaves no instance behind *)
Definition handler (m : amach) (o : aop) : bool * list nat :=
  match ao_kind o with
  | KCommits => if has_inst m (ao_round o) then (false, am_rounds m)
                else if ao_wellformed o then (true, ao_round o :: am_rounds m) else (false, am_rounds m)
  | _ => (has_inst m (ao_round o) && ao_wellformed o, am_rounds m)
  end.

Definition aprocess (m : amach) (o : aop) : amach * aclass :=
  let (ok, rounds') := handler m o in
  let logged := match ao_kind o with KSigning => am_log m | _ => am_log m ++ [o] end in
  if ok then ({| am_rounds := rounds'; am_log := logged |}, AOk)
  else if existsb (Nat.eqb (ao_round o)) rounds'
       then ({| am_rounds := rounds'; am_log := logged |}, AErrorResult)   (* error result: processed, logged *)
       else (m, ARejected).

Fixpoint afeed (m : amach) (ops : list aop) : amach * list aclass :=
  match ops with
  | [] => (m, [])
  | o :: r => let (m', c) := aprocess m o in let (m'', cs) := afeed m' r in (m'', c :: cs)
  end.

Definition aclass_of (k : okind) (had_instance wellformed : bool) : aclass :=
  snd (aprocess {| am_rounds := if had_instance then [1] else []; am_log := [] |}
                {| ao_kind := k; ao_round := 1; ao_wellformed := wellformed |}).
