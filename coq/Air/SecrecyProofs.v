(* C04: what the terms that leave the machine let anybody read. *)
From Coq Require Import String List Arith Bool Lia.
Require Import Air.Terms.
Import ListNotations.

Lemma flat_map_nil {A B} (f : A -> list B) l : (forall x, In x l -> f x = []) -> flat_map f l = [].
Proof.
  induction l as [|a l IH]; intros H; cbn; [reflexivity|].
  rewrite (H a (or_introl eq_refl)), IH; [reflexivity|]. intros x Hx. apply H. right. exact Hx.
Qed.

Lemma readable_commits ks t : readable ks (commits t) = [].
Proof. unfold commits. cbn [readable]. apply flat_map_nil. intros x Hx. apply in_map_iff in Hx as (k & <- & _). reflexivity. Qed.

Lemma readable_pubpoly ks t : readable ks (pubpoly t) = [].
Proof.
  unfold pubpoly. cbn [readable flat_map]. rewrite app_nil_r.
  apply flat_map_nil. intros x Hx. apply in_map_iff in Hx as (k & <- & _). reflexivity.
Qed.

Lemma readable_response_entry ks : readable ks response_entry = [].
Proof. reflexivity. Qed.

(* a deal: the sub-share of its addressee, for the addressee's key only *)
Lemma readable_deal ks t j :
  readable ks (deal_for t j) = if existsb (key_eqb (KPart j)) ks then [SSub j] else [].
Proof.
  unfold deal_for. cbn [readable flat_map]. rewrite readable_commits.
  destruct (existsb (key_eqb (KPart j)) ks); reflexivity.
Qed.

Definition only_own_subshares (ks : list key) (l : list secret) : Prop :=
  forall s, In s l -> exists j, s = SSub j /\ existsb (key_eqb (KPart j)) ks = true.

Lemma only_nil ks : only_own_subshares ks [].
Proof. intros s []. Qed.

(* whatever keys somebody holds, a result operation gives him nothing but the sub-shares addressed
   to participants whose long-term key he holds; with no key: nothing *)
Theorem results_expose_only_addressed_subshares o n t me nm err ks x :
  In x (result_terms (result_of o n t me nm err)) -> only_own_subshares ks (readable ks x).
Proof.
  unfold result_of, result_terms. destruct err.
  - cbn. intros [<-|[]]. cbn. apply only_nil.
  - destruct o; cbn [rs_extra rs_msgs map app].
    + intros [<-|[]]. cbn [mg_body readable flat_map]. rewrite readable_commits. apply only_nil.
    + intros [<-|Hx]; [cbn; apply only_nil|].
      rewrite map_map in Hx. apply in_map_iff in Hx as (j & <- & _).
      cbn [mg_body readable flat_map]. rewrite readable_deal, app_nil_r.
      destruct (existsb (key_eqb (KPart j)) ks) eqn:E; [|apply only_nil].
      intros s [<-|[]]. exists j. split; [reflexivity|exact E].
    + intros [<-|[]]. cbn [mg_body readable flat_map]. rewrite app_nil_r.
      rewrite flat_map_nil; [apply only_nil|].
      intros y Hy. apply in_map_iff in Hy as (k & <- & _). reflexivity.
    + intros [<-|[]]. cbn [mg_body readable flat_map]. rewrite readable_pubpoly. apply only_nil.
    + intros [<-|[]]. cbn [mg_body readable flat_map]. rewrite app_nil_r.
      rewrite flat_map_nil; [apply only_nil|].
      intros y Hy. apply in_map_iff in Hy as (k & <- & _). reflexivity.
    + intros [<-|[]]. rewrite readable_pubpoly. apply only_nil.
Qed.

Theorem results_expose_nothing o n t me nm err x :
  In x (result_terms (result_of o n t me nm err)) -> readable [] x = [].
Proof.
  intros H. pose proof (results_expose_only_addressed_subshares o n t me nm err [] x H) as Ho.
  destruct (readable [] x) as [|s l]; [reflexivity|].
  destruct (Ho s (or_introl eq_refl)) as (j & _ & E). discriminate.
Qed.

(* a deal leaves the machine only in a message addressed to the participant whose key opens it *)
Theorem deal_only_for_addressee n t me m j k :
  In m (rs_msgs (result_of ODeals n t me 0 false)) -> mg_to m = Some j -> k <> j ->
  readable [KPart k] (mg_body m) = [].
Proof.
  cbn. intros [<-|Hm] Hto Hk; [reflexivity|].
  apply in_map_iff in Hm as (j' & <- & _). cbn in Hto. injection Hto as ->.
  cbn [mg_body readable flat_map]. rewrite readable_deal. cbn [existsb key_eqb].
  destruct (Nat.eqb_spec j k); [congruence|reflexivity].
Qed.
Theorem deal_opens_for_addressee t j : readable [KPart j] (deal_for t j) = [SSub j].
Proof. rewrite readable_deal. cbn. rewrite Nat.eqb_refl. reflexivity. Qed.

(* the machine never addresses a private deal to itself, and addresses one to everybody else *)
Theorem deals_addressees n t me :
  map mg_to (rs_msgs (result_of ODeals n t me 0 false)) = Some me :: map Some (others n me).
Proof. cbn. rewrite map_map. reflexivity. Qed.

(* ---- the database ---- *)
Theorem database_clear_text t : flat_map (fun kv => readable [] (snd kv)) (database t) = [SSeed].
Proof. reflexivity. Qed.

Theorem database_key_and_share_only_under_password t name v :
  In (name, v) (database t) -> In SLongKey (readable [KPass] v) \/ In SShare (readable [KPass] v) ->
  exists b, v = Enc KPass b.
Proof.
  intros Hin Hs.
  assert (Hcases : v = Enc KPass (Sec SLongKey) \/ v = Enc KPass (Pub b48) \/ v = Pub "b32" \/ v = Sec SSeed \/
                   v = Enc KPass (keyring t) \/ v = Pub "requests").
  { cbn in Hin. repeat (destruct Hin as [Hin|Hin]; [injection Hin as _ <-; tauto|]). destruct Hin. }
  destruct Hcases as [E|[E|[E|[E|[E|E]]]]]; subst v; try (eexists; reflexivity); cbn in Hs.
  - destruct Hs as [[]|[]].
  - destruct Hs as [[H|[]]|[H|[]]]; discriminate.
  - destruct Hs as [[]|[]].
Qed.

Theorem wrong_password_opens_nothing pw pw' b : pw' <> pw -> open_with pw' pw (Enc KPass b) = None.
Proof. intros H. cbn. destruct (Nat.eqb_spec pw' pw); [contradiction|reflexivity]. Qed.
Theorem right_password_opens pw b : open_with pw pw (Enc KPass b) = Some b.
Proof. cbn. rewrite Nat.eqb_refl. reflexivity. Qed.

(* ---- rounds ---- *)
(* the full statement "key material of different rounds is unrelated" is REFUTED: the dealer's
   polynomial does not depend on the round at all, and with the same participants and threshold
   neither do the group key and the shares *)
Theorem rounds_unrelated_refuted :
  forall c1 c2 : round_cfg,
    (forall m k, coeff_source c1 m k = coeff_source c2 m k) /\
    (sorted (rc_machines c1) = sorted (rc_machines c2) -> group_key_source c1 = group_key_source c2) /\
    (sorted (rc_machines c1) = sorted (rc_machines c2) -> rc_t c1 = rc_t c2 ->
     forall x, share_source c1 x = share_source c2 x).
Proof.
  intros c1 c2. split; [reflexivity|]. split.
  - intros H. unfold group_key_source. rewrite H. reflexivity.
  - intros H Ht x. unfold share_source. rewrite H, Ht. reflexivity.
Qed.

(* what does differ: the randomness of the deals' encryption *)
Theorem rounds_unrelated_partial c1 c2 m p : rc_id c1 <> rc_id c2 -> deal_randomness c1 m p <> deal_randomness c2 m p.
Proof. unfold deal_randomness. intros H E. injection E as E. contradiction. Qed.

Example two_rounds_same_machines :
  let c1 := {| rc_id := 1; rc_t := 2; rc_machines := [0; 1; 2] |} in
  let c2 := {| rc_id := 2; rc_t := 2; rc_machines := [0; 1; 2] |} in
  rc_id c1 <> rc_id c2 /\ group_coincides c1 c2 = true /\ shares_coincide c1 c2 = [true; true; true] /\
  coeffs_coincide c1 c2 = [true; true; true].
Proof. cbn. repeat split. discriminate. Qed.
