From Coq Require Import List Bool.
Require Import Air.Lock.
Import ListNotations.

(* inside its critical section the command owns the lock; after it has ensured the password the
   password is present until it releases; the tick is in its critical section only as owner *)
Definition linv (s : lstate) : Prop :=
  (match cmd s with C0 => True | _ => lk s = ByCmd end) /\
  (match tick s with T0 => True | _ => lk s = ByTick end) /\
  (match cmd s with C2 | C3 => enc s = true | _ => True end) /\
  Forall (fun b => b = true) (saved s).

Lemma linv_init : linv linit.
Proof. repeat split; constructor. Qed.

Lemma linv_step s who : linv s -> linv (lstep s who).
Proof.
  destruct s as [l e c t sv]. unfold linv, lstep. cbn.
  intros (Hc & Ht & He & Hs).
  destruct who, c, t, l; cbn in *; try discriminate; repeat split; try assumption; try reflexivity;
    try (apply Forall_app; split; [assumption|constructor; [assumption|constructor]]).
Qed.

Theorem share_always_saved_under_password sched : Forall (fun b => b = true) (saved (lrun sched)).
Proof.
  assert (H : linv (lrun sched)).
  { unfold lrun. generalize linv_init. generalize linit.
    induction sched as [|a r IH]; intros s Hs; cbn; [exact Hs|]. apply IH, linv_step, Hs. }
  apply H.
Qed.

(* non-vacuity: a schedule in which the tick fires while the command runs, and a keyring is saved *)
Example tick_inside_command : saved (lrun [true; false; false; true; true; true; false; false; false]) = [true].
Proof. reflexivity. Qed.
