From Coq Require Import List Bool.
Require Import Air.Lock.
Import ListNotations.

(* the full statement "a share is always saved under the password" is REFUTED: the password is
   checked in one critical section and used in the next; a tick in between clears it *)
Theorem share_saved_under_password_refuted : exists sched, saved (lrun sched) = [false].
Proof. exists gap_schedule. reflexivity. Qed.

(* partial: in every schedule in which the tick takes no step in that gap, every share is saved
   under the password - inside each of its sections the command owns the lock and the tick waits *)
Definition linv (s : lstate) : Prop :=
  (match cmd s with C1 | C2 | C4 | C5 => lk s = ByCmd | _ => True end) /\
  (match tick s with T0 => True | _ => lk s = ByTick end) /\
  (match cmd s with C2 | C3 | C4 | C5 => enc s = true | _ => True end) /\
  Forall (fun b => b = true) (saved s).

Lemma linv_init : linv linit.
Proof. repeat split; constructor. Qed.

Lemma linv_step s who :
  (who || negb (match cmd s with C3 => true | _ => false end)) = true -> linv s -> linv (lstep s who).
Proof.
  destruct s as [l e c t sv]. unfold linv, lstep. cbn.
  intros Hg (Hc & Ht & He & Hs).
  destruct who, c, t, l; cbn in *; try discriminate; repeat split; try assumption; try reflexivity;
    try (apply Forall_app; split; [assumption|constructor; [assumption|constructor]]).
Qed.

Theorem share_saved_under_password_partial sched :
  gapless_from linit sched = true -> Forall (fun b => b = true) (saved (lrun sched)).
Proof.
  unfold lrun, lrun_from. intros Hg.
  assert (H : linv (fold_left lstep sched linit)).
  { revert Hg. generalize linv_init. generalize linit.
    induction sched as [|a r IH]; intros s Hs Hg; cbn [fold_left]; [exact Hs|].
    cbn [gapless_from] in Hg. apply andb_prop in Hg as [H1 H2]. apply IH; [apply linv_step; assumption|exact H2]. }
  apply H.
Qed.

(* non-vacuity: a gapless schedule in which the tick fires while the command is in its handler
   section, and a keyring is saved *)
Example tick_inside_command :
  gapless_from linit [true; true; true; true; false; false; true; true; false; false; false] = true /\
  saved (lrun [true; true; true; true; false; false; true; true; false; false; false]) = [true].
Proof. split; reflexivity. Qed.
