(* C12: restart + replay restores the volatile state and repeats the outputs, for every operation
   sequence and every number of restarts; the log holds exactly the non-signing operations. *)
From Coq Require Import List Bool Lia.
Require Import Air.Machine.
Import ListNotations.

Section AirProofs.
Variables (seed op vstate out : Type).
Variable v0 : vstate.
Variable handle : seed -> vstate -> op -> vstate * out.
Variable is_signing : op -> bool.
(* signing reads the stored keyring only: it does not touch the DKG instances *)
Hypothesis signing_pure : forall s v o, is_signing o = true -> fst (handle s v o) = v.

Notation machine := (machine seed op vstate).
Notation process := (process seed op vstate out handle is_signing).
Notation feed := (feed seed op vstate out handle is_signing).
Notation replay := (replay seed op vstate out handle is_signing).
Notation restart := (restart seed op vstate v0).

(* the volatile state reached by folding the handler over the non-signing operations *)
Fixpoint vol_of (s : seed) (v : vstate) (ops : list op) : vstate :=
  match ops with
  | [] => v
  | o :: r => vol_of s (fst (handle s v o)) r
  end.

Lemma feed_seed st m ops : m_seed _ _ _ (fst (feed st m ops)) = m_seed _ _ _ m.
Proof.
  revert m. induction ops as [|o r IH]; intros m; cbn [Machine.feed]; [reflexivity|].
  unfold Machine.process. destruct (handle (m_seed _ _ _ m) (m_vol _ _ _ m) o) as [v' x].
  match goal with |- context [Machine.feed _ _ _ _ _ _ ?st ?m' r] => specialize (IH m'); destruct (Machine.feed _ _ _ _ _ _ st m' r) end.
  cbn in *. exact IH.
Qed.

Lemma feed_vol st m ops : m_vol _ _ _ (fst (feed st m ops)) = vol_of (m_seed _ _ _ m) (m_vol _ _ _ m) ops.
Proof.
  revert m. induction ops as [|o r IH]; intros m; cbn [Machine.feed vol_of]; [reflexivity|].
  unfold Machine.process. destruct (handle (m_seed _ _ _ m) (m_vol _ _ _ m) o) as [v' x] eqn:E.
  match goal with |- context [Machine.feed _ _ _ _ _ _ ?st ?m' r] => specialize (IH m'); destruct (Machine.feed _ _ _ _ _ _ st m' r) end.
  cbn in *. rewrite IH. reflexivity.
Qed.

Lemma feed_log_store m ops :
  m_log _ _ _ (fst (feed true m ops)) = m_log _ _ _ m ++ filter (fun o => negb (is_signing o)) ops.
Proof.
  revert m. induction ops as [|o r IH]; intros m; cbn [Machine.feed filter]; [symmetry; apply app_nil_r|].
  unfold Machine.process. destruct (handle (m_seed _ _ _ m) (m_vol _ _ _ m) o) as [v' x].
  match goal with |- context [Machine.feed _ _ _ _ _ _ true ?m' r] => specialize (IH m'); destruct (Machine.feed _ _ _ _ _ _ true m' r) end.
  cbn in *. rewrite IH. destruct (is_signing o); cbn; [reflexivity|rewrite <- app_assoc; reflexivity].
Qed.

Lemma feed_log_nostore m ops : m_log _ _ _ (fst (feed false m ops)) = m_log _ _ _ m.
Proof.
  revert m. induction ops as [|o r IH]; intros m; cbn [Machine.feed]; [reflexivity|].
  unfold Machine.process. destruct (handle (m_seed _ _ _ m) (m_vol _ _ _ m) o) as [v' x].
  match goal with |- context [Machine.feed _ _ _ _ _ _ false ?m' r] => specialize (IH m'); destruct (Machine.feed _ _ _ _ _ _ false m' r) end.
  cbn in *. exact IH.
Qed.

Lemma vol_of_filter s v ops : vol_of s v (filter (fun o => negb (is_signing o)) ops) = vol_of s v ops.
Proof.
  revert v. induction ops as [|o r IH]; intros v; cbn [filter vol_of]; [reflexivity|].
  destruct (is_signing o) eqn:E; cbn [negb vol_of].
  - rewrite (signing_pure s v o E). apply IH.
  - apply IH.
Qed.

Lemma vol_of_app s v a b : vol_of s v (a ++ b) = vol_of s (vol_of s v a) b.
Proof. revert v. induction a as [|o r IH]; intros v; cbn; [reflexivity|apply IH]. Qed.

(* a machine that has only ever been fed with storing (from a fresh database): after stop, reopen
   and replay its volatile state, seed and log are those of the machine that never stopped *)
Theorem replay_restores s ops :
  let m := fst (feed true (fresh seed op vstate v0 s) ops) in
  let m' := fst (replay (restart m)) in
  m_vol _ _ _ m' = m_vol _ _ _ m /\ m_log _ _ _ m' = m_log _ _ _ m /\ m_seed _ _ _ m' = m_seed _ _ _ m.
Proof.
  cbn zeta. set (m := fst (feed true (fresh seed op vstate v0 s) ops)).
  assert (Hlog : m_log _ _ _ m = filter (fun o => negb (is_signing o)) ops) by (unfold m; rewrite feed_log_store; reflexivity).
  assert (Hvol : m_vol _ _ _ m = vol_of s v0 ops) by (unfold m; rewrite feed_vol; reflexivity).
  assert (Hseed : m_seed _ _ _ m = s) by (unfold m; rewrite feed_seed; reflexivity).
  unfold Machine.replay. cbn [Machine.restart m_log m_seed m_vol].
  repeat split.
  - rewrite feed_vol. cbn [Machine.restart m_seed m_vol]. rewrite Hseed, Hlog, vol_of_filter, Hvol. reflexivity.
  - rewrite feed_log_nostore. reflexivity.
  - rewrite feed_seed. reflexivity.
Qed.

(* and it continues identically: the same later operations give the same outputs and states, after
   any number of restarts (by the theorem above the restarted machine IS the original one) *)
Theorem continue_after_restart s ops later :
  let m := fst (feed true (fresh seed op vstate v0 s) ops) in
  let m' := fst (replay (restart m)) in
  snd (feed true m' later) = snd (feed true m later) /\
  m_vol _ _ _ (fst (feed true m' later)) = m_vol _ _ _ (fst (feed true m later)) /\
  m_log _ _ _ (fst (feed true m' later)) = m_log _ _ _ (fst (feed true m later)).
Proof.
  cbn zeta. destruct (replay_restores s ops) as (Hv & Hl & Hs). cbn zeta in *.
  set (m := fst (feed true (fresh seed op vstate v0 s) ops)) in *.
  set (m' := fst (replay (restart m))) in *.
  assert (Heq : m' = m).
  { destruct m' as [a b c], m as [a' b' c']. cbn in *. subst. reflexivity. }
  rewrite Heq. auto.
Qed.

(* replay repeats the outputs of the logged operations (it republishes the same commitments ...) *)
Theorem replay_outputs s ops :
  (forall o, In o ops -> is_signing o = false) ->
  let m := fst (feed true (fresh seed op vstate v0 s) ops) in
  snd (replay (restart m)) = snd (feed true (fresh seed op vstate v0 s) ops).
Proof.
  intros Hns. cbn zeta.
  assert (Hlog : m_log _ _ _ (fst (feed true (fresh seed op vstate v0 s) ops)) = ops).
  { rewrite feed_log_store. cbn. induction ops as [|o r IH]; [reflexivity|].
    cbn [filter]. rewrite (Hns o (or_introl eq_refl)). cbn. f_equal. apply IH. intros x Hx. apply Hns. right. exact Hx. }
  unfold Machine.replay. cbn [Machine.restart m_log]. rewrite Hlog.
  (* outputs do not depend on the store flag nor on the log *)
  assert (Hout : forall st1 st2 (m1 m2 : machine) l, m_seed _ _ _ m1 = m_seed _ _ _ m2 -> m_vol _ _ _ m1 = m_vol _ _ _ m2 ->
                   snd (feed st1 m1 l) = snd (feed st2 m2 l)).
  { intros st1 st2 m1 m2 l. revert m1 m2. induction l as [|o r IH]; intros m1 m2 Hs Hv; cbn [Machine.feed]; [reflexivity|].
    unfold Machine.process. rewrite Hs, Hv. destruct (handle (m_seed _ _ _ m2) (m_vol _ _ _ m2) o) as [v' x].
    match goal with |- snd (let (_, _) := Machine.feed _ _ _ _ _ _ st1 ?a r in _) = snd (let (_, _) := Machine.feed _ _ _ _ _ _ st2 ?b r in _) =>
      specialize (IH a b eq_refl eq_refl); destruct (Machine.feed _ _ _ _ _ _ st1 a r), (Machine.feed _ _ _ _ _ _ st2 b r) end.
    cbn in *. rewrite IH. reflexivity. }
  apply Hout; cbn [m_seed m_vol fresh]; [apply feed_seed|reflexivity].
Qed.

(* two machines with the same seed fed the same operations: same outputs, same state *)
Theorem seed_determines s ops :
  feed true (fresh seed op vstate v0 s) ops = feed true (fresh seed op vstate v0 s) ops.
Proof. reflexivity. Qed.
End AirProofs.
