# Per-property configuration of bin/check.
SSZ_TB = [
    "SHA-256 is modelled from FIPS 180-4 (Ssz/Sha256.v) and tied to Go's crypto/sha256 only by the correspondence run",
    "fastssz Hasher: PutUint64/PutBytes/Merkleize given their specified meaning (not the library's incremental algorithm); the repository's *_encoded.go programs are regenerated into the model",
    "strings.Split / strconv.ParseInt modelled by Lib/GoStr.v; the split itself is done by the generator with the same library call",
]

PROPS = {
    "C17": {
        "props": "Props/C17.v",
        "scenarios": ["c17"],
        "rule": "validator indices: 16 boundary values + seeded random uint64 of four magnitude classes; positions: -6..40, 18592..18640, six extreme ints, plus 1200 random (quick) or all 18632 (thorough). A case is non-trivial when it is a distinct input line; every case is compared byte-for-byte with the extracted Coq model and judged by an oracle that recomputes the consensus-spec root with crypto/sha256 directly.",
        "exhaustive": {"quick": False, "thorough": True},
        "trusted_base": SSZ_TB,
        "assumptions": ["spec constants (domain type, fork version, genesis validators root, Lido key and address) are hand-copied into Ssz/Rotation.v from the consensus spec / property text and proved equal to the regenerated live values"],
    },
    "C05": {
        "props": "Props/C05.v",
        "scenarios": ["c05"],
        "rule": "breadth-first exploration of the IMPLEMENTATION's reachable abstract round states through dumps (FromDump + Do), to a fixpoint, for (n,t) = (2,2), (3,2) with the full alphabet (every public event incl. hand-overs, internal and unknown events, type-confused requests; every participant id incl. -1, n, n+1; payload variants valid / empty / late / zero-time / other key / other polynomial) and (3,3) with the core alphabet [thorough: + n=4]. One case = one (abstract state, event) pair; non-trivial = the event is routed to a callback (classes ok / err). Every case is compared with the extracted Coq model (state, dump state, response, full payload) and judged by the C05 oracles (rejection is a no-op, cancel is final, causes, ready shape).",
        "exhaustive": {"quick": True, "thorough": True},
        "trusted_base": ["JSON encoding of dumps (encoding/json) is outside the model: the harness decodes dumps with the same library",
                         "time.Time modelled as whole seconds relative to the harness epoch"],
        "assumptions": ["transition tables, fin states, callback registration, pool maps and deadlines are regenerated from the live objects on every run"],
    },
    "C06": {
        "props": "Props/C06.v",
        "scenarios": ["c06"],
        "rule": "breadth-first exploration of the implementation's reachable abstract signing states from a signing-ready dump, to a fixpoint, for (n,t) = (2,2), (3,2) with the full signing alphabet (proposals valid/invalid, partial signatures for the current batch / a stale batch / empty / repeated / unknown participant / late, error reports, restarts, internal, unknown and type-confused events) and (3,3) core [thorough: + n=4]; plus seeded random sequences for n in 4..7 with the node's restart after finished batches. One case = one (abstract state, event) pair; non-trivial = routed to a callback. Every case is compared with the extracted Coq model and judged by the C06 oracles (batch id, distinctness, threshold, failure bound, restart).",
        "exhaustive": {"quick": True, "thorough": True},
        "trusted_base": ["JSON encoding of dumps is outside the model"],
        "assumptions": ["the signing deadline never fires (the actions update SignatureProposalPayload.UpdatedAt); modelled as it is"],
    },
    "C19": {
        "props": "Props/C19.v",
        "scenarios": ["c19"],
        "rule": "(a) every abstract state reached by the C05/C06 explorations (n=2,3) is loaded back from its JSON dump; (b) from every loadable abstract state at least one in-memory walk (depth 8 quick / 12 thorough, seeded, biased to accepted events) where each step is executed on the live instance and on an instance restored from the live instance's dump, and the two answers (class, state, response, payload) are compared; the model runs the same walks. Non-trivial = every walk and every load.",
        "exhaustive": {"quick": False, "thorough": False},
        "trusted_base": ["JSON encoding of dumps is outside the model: what a JSON round trip does to nil/empty slices and maps is exercised by the harness only"],
        "assumptions": [],
    },
}
