# Per-property configuration of bin/check.
SSZ_TB = [
    "SHA-256 is modelled from FIPS 180-4 (Ssz/Sha256.v) and tied to Go's crypto/sha256 only by the correspondence run",
    "fastssz Hasher: PutUint64/PutBytes/Merkleize given their specified meaning (not the library's incremental algorithm); the repository's *_encoded.go programs are regenerated into the model",
    "strings.Split / strconv.ParseInt modelled by Lib/GoStr.v; the split itself is done by the generator with the same library call",
]

PROPS = {
    "C17": {
        "props": "Props/C17.v",
        "scenarios": ["c17"],
        "rule": "validator indices: 16 boundary values + seeded random uint64 of four magnitude classes; positions: -6..40, 18592..18640, six extreme ints, plus 1200 random (quick) or all 18632 (thorough). A case is non-trivial when it is a distinct input line; every case is compared byte-for-byte with the extracted Coq model and judged by an oracle that recomputes the consensus-spec root with crypto/sha256 directly.",
        "exhaustive": {"quick": False, "thorough": True},
        "trusted_base": SSZ_TB,
        "assumptions": ["spec constants (domain type, fork version, genesis validators root, Lido key and address) are hand-copied into Ssz/Rotation.v from the consensus spec / property text and proved equal to the regenerated live values"],
    },
}
