# Per-property configuration of bin/check.
SSZ_TB = [
    "SHA-256 is modelled from FIPS 180-4 (Ssz/Sha256.v) and tied to Go's crypto/sha256 only by the correspondence run",
    "fastssz Hasher: PutUint64/PutBytes/Merkleize given their specified meaning (not the library's incremental algorithm); the repository's *_encoded.go programs are regenerated into the model",
    "strings.Split / strconv.ParseInt modelled by Lib/GoStr.v; the split itself is done by the generator with the same library call",
]

PROPS = {
    "C17": {
        "props": "Props/C17.v",
        "scenarios": ["c17"],
        "rule": "validator indices: 16 boundary values + seeded random uint64 of four magnitude classes; positions: -6..40, 18592..18640, six extreme ints, plus 1200 random (quick) or all 18632 (thorough). A case is non-trivial when it is a distinct input line; every case is compared byte-for-byte with the extracted Coq model and judged by an oracle that recomputes the consensus-spec root with crypto/sha256 directly.",
        "exhaustive": {"quick": False, "thorough": True},
        "trusted_base": SSZ_TB,
        "assumptions": ["spec constants (domain type, fork version, genesis validators root, Lido key and address) are hand-copied into Ssz/Rotation.v from the consensus spec / property text and proved equal to the regenerated live values"],
    },
    "C05": {
        "props": "Props/C05.v",
        "scenarios": ["c05"],
        "rule": "breadth-first exploration of the IMPLEMENTATION's reachable abstract round states through dumps (FromDump + Do), to a fixpoint, for (n,t) = (2,2), (3,2) with the full alphabet (every public event incl. hand-overs, internal and unknown events, type-confused requests; every participant id incl. -1, n, n+1; payload variants valid / empty / late / zero-time / other key / other polynomial) and (3,3) with the core alphabet [thorough: + n=4]. One case = one (abstract state, event) pair; non-trivial = the event is routed to a callback (classes ok / err). Every case is compared with the extracted Coq model (state, dump state, response, full payload) and judged by the C05 oracles (rejection is a no-op, cancel is final, causes, ready shape).",
        "exhaustive": {"quick": True, "thorough": True},
        "trusted_base": ["JSON encoding of dumps (encoding/json) is outside the model: the harness decodes dumps with the same library",
                         "time.Time modelled as whole seconds relative to the harness epoch"],
        "assumptions": ["transition tables, fin states, callback registration, pool maps and deadlines are regenerated from the live objects on every run"],
    },
    "C06": {
        "props": "Props/C06.v",
        "scenarios": ["c06"],
        "rule": "breadth-first exploration of the implementation's reachable abstract signing states from a signing-ready dump, to a fixpoint, for (n,t) = (2,2), (3,2) with the full signing alphabet (proposals valid/invalid, partial signatures for the current batch / a stale batch / empty / repeated / unknown participant / late, error reports, restarts, internal, unknown and type-confused events) and (3,3) core [thorough: + n=4]; plus seeded random sequences for n in 4..7 with the node's restart after finished batches. One case = one (abstract state, event) pair; non-trivial = routed to a callback. Every case is compared with the extracted Coq model and judged by the C06 oracles (batch id, distinctness, threshold, failure bound, restart).",
        "exhaustive": {"quick": True, "thorough": True},
        "trusted_base": ["JSON encoding of dumps is outside the model"],
        "assumptions": ["the signing deadline never fires (the actions update SignatureProposalPayload.UpdatedAt); modelled as it is"],
    },
    "C19": {
        "props": "Props/C19.v",
        "scenarios": ["c19"],
        "rule": "(a) every abstract state reached by the C05/C06 explorations (n=2,3) is loaded back from its JSON dump; (b) from every loadable abstract state at least one in-memory walk (depth 8 quick / 12 thorough, seeded, biased to accepted events) where each step is executed on the live instance and on an instance restored from the live instance's dump, and the two answers (class, state, response, payload) are compared; the model runs the same walks. Non-trivial = every walk and every load.",
        "exhaustive": {"quick": False, "thorough": False},
        "trusted_base": ["JSON encoding of dumps is outside the model: what a JSON round trip does to nil/empty slices and maps is exercised by the harness only"],
        "assumptions": [],
    },
    "C09": {
        "props": "Props/C09.v", "scenarios": ["c09"],
        "rule": "a real node (LevelDB state, file board, real services) replays every prefix of an honest n=3,t=2 ceremony + signing batch [thorough: also (4,3), (2,2)]; after each prefix the next genuine message is injected in 10 mutated forms (signature bit flip / truncated / empty, payload digit changed / byte appended, sender renamed to another participant / a stranger / empty, re-signed with another participant's / a fresh key). One case = one history; all are non-trivial. Snapshot of every round, both operation keys, all signature keys and the board before/after; compared with the Coq node model.",
        "exhaustive": {"quick": False, "thorough": False}, "trusted_base": ["ed25519 idealised (a signature names key and bytes); threshold crypto symbolic at node level (token ranges assigned by the harness from real kyber values; recover follows kyber tbls.Recover)", "JSON decoding of board messages, operations and dumps is done by the implementation's own decoders in the harness; the model starts from decoded values", "wall clock (time.Now) is an input of the model (NOWMARK); LevelDB and the file board are the real ones"], "assumptions": [],
    },
    "C10": {
        "props": "Props/C10.v", "scenarios": ["c10"],
        "rule": "every ordered pair (attacker S, victim P), S != P, for every genuine message of an honest n=3,t=2 history: the victim's request sent and validly signed by S, in the state where P is awaited (plus decline in P's name); every genuine message re-posted under a second round identifier in the same state; confirmations re-posted as declines / error reports. One case = one history.",
        "exhaustive": {"quick": False, "thorough": False}, "trusted_base": ["ed25519 idealised (a signature names key and bytes); threshold crypto symbolic at node level (token ranges assigned by the harness from real kyber values; recover follows kyber tbls.Recover)", "JSON decoding of board messages, operations and dumps is done by the implementation's own decoders in the harness; the model starts from decoded values", "wall clock (time.Now) is an input of the model (NOWMARK); LevelDB and the file board are the real ones"], "assumptions": [],
    },
    "C15": {
        "props": "Props/C15.v", "scenarios": ["c15"],
        "rule": "after prefixes of an honest ceremony that leave an operation pending: the unaltered result, and results with a claimed sender, without event (request-only), unknown / short id, changed type, changed / truncated payload, no messages, and the valid result submitted twice - through node.ProcessOperation on a real node; board, pool and tombstones compared with the model and judged by the C15 oracle. Operation ids are checked against md5(round_base64(payload)).",
        "exhaustive": {"quick": False, "thorough": False}, "trusted_base": ["ed25519 idealised (a signature names key and bytes); threshold crypto symbolic at node level (token ranges assigned by the harness from real kyber values; recover follows kyber tbls.Recover)", "JSON decoding of board messages, operations and dumps is done by the implementation's own decoders in the harness; the model starts from decoded values", "wall clock (time.Now) is an input of the model (NOWMARK); LevelDB and the file board are the real ones"], "assumptions": ["the HTTP layer (echo handlers) and the JSON file round trip are not exercised in this round"],
    },
    "C18": {
        "props": "Props/C18.v", "scenarios": ["c18"],
        "rule": "after prefixes of an honest ceremony (11 positions quick, all thorough): ~80 hostile board messages validly signed where needed (unknown / empty / internal events; for ten event types: truncated JSON, null, array, type confusion, negative and huge participant ids, empty object; signing proposals with negative / out-of-range / empty / huge baked ranges; unknown, two-character and empty round ids). Oracle: no panic; a refused message leaves the durable snapshot unchanged. Compared with the model.",
        "exhaustive": {"quick": False, "thorough": False}, "trusted_base": ["ed25519 idealised (a signature names key and bytes); threshold crypto symbolic at node level (token ranges assigned by the harness from real kyber values; recover follows kyber tbls.Recover)", "JSON decoding of board messages, operations and dumps is done by the implementation's own decoders in the harness; the model starts from decoded values", "wall clock (time.Now) is an input of the model (NOWMARK); LevelDB and the file board are the real ones"], "assumptions": ["operation files fed to the airgapped machine and request bodies of the HTTP API are not covered in this round (node board messages only)"],
    },
    "C08": {
        "props": "Props/C08.v", "scenarios": ["c08"],
        "rule": "an honest n=3,t=2 round A (ceremony, one batch, another node's broadcast, a late answer) on a real node, and seeded variants: random interleavings with a second round B on the same board, restarts at random points (crash image of the state directory), duplicates / old messages / signature-mutated copies / junk in between; the projection of round A (dump + signature store) must equal the one reached from A's sub-log alone. Plus reinit_dkg histories (fresh, twice, crafted for an existing round, foreign embedded message) and one replay of the whole log through the REAL Poll loop from an empty state. Every history is also run on the Coq node model.",
        "exhaustive": {"quick": False, "thorough": False},
        "trusted_base": ["ed25519 idealised; threshold crypto symbolic (harness-assigned token ranges from real kyber values)", "JSON decoding by the implementation's decoders in the harness", "wall clock is an input (NOWMARK): the deadline hypothesis of the property is met by construction"],
        "assumptions": ["Poll batching is exercised with the real 1 s ticker on one log only; different batchings of the same log are covered by restarts at random points"],
    },
    "C16": {
        "props": "Props/C16.v", "scenarios": ["c16"],
        "rule": "real FileStorage: W concurrent writers with separate handles (goroutines: 4x25, 6x8 incl. a 700 kB payload; separate OS processes: 3x6) [thorough: 16x50, 8x20, 8x12 processes, 2x200], payload sizes 0 / 1 / 100 / 5 kB / around the 64 KiB line boundary / 70 kB / 200 kB / just below the 1 MiB limit; then reads from six offsets with and without ignore lists (by id and by offset). Oracle: exactly once, offset = position, per-writer order, payload intact, read-from-k. The observed file order is replayed sequentially on the Coq model (offsets, reads). One over-limit line checks that model and reader refuse alike.",
        "exhaustive": {"quick": False, "thorough": False},
        "trusted_base": ["flock exclusion and the atomicity of O_APPEND writes are the operating system's; the model's atomic steps are the calls of `send` regenerated from go/ast", "bufio.Scanner token limit modelled as: scanning stops at the first line longer than the limit"],
        "assumptions": ["interleavings are those the Go scheduler / OS produce in the run; all interleavings are covered by the theorem over schedules, not by the run"],
    },
    "C13": {
        "props": "Props/C13.v", "scenarios": ["c13"],
        "rule": "fault injection through wrappers of state.State and storage.Storage: for every board message of an honest n=3,t=2 key generation + signing batch and every durable write (state.Set / storage.Send) it causes, the node is killed right before that write, restarted on the same state, the message is delivered again (the offset is saved only after handling) and the ceremony is driven to the end; round state, pending operations and signatures must equal the crash-free run, the board may contain duplicates. Plus a clean stop/start (services rebuilt, NewOperationRepo included) before every message. Every history runs on the Coq model with the same crash semantics.",
        "exhaustive": {"quick": True, "thorough": True},
        "trusted_base": ["a write is durable when state.Set / storage.Send returns (LevelDB and the file system are trusted); crash = the first k durable writes of the handler"],
        "assumptions": ["crashes inside API requests (operation results) and double crashes are not enumerated in this round"],
    },
    "C14": {
        "props": "Props/C14.v", "scenarios": ["c14"],
        "rule": "a deterministic scheduler blocks two goroutines (one API request, one poller ProcessMessage, separate service stacks over one LevelDB state) at every state-store call and releases them according to a schedule; all schedules with at most 2 context switches (3 thorough) are run for two (request, message) pairs: an operation result against a message that creates no operation and against one that creates an operation. Each outcome (rounds, tombstones, offered operations, signatures, board as a multiset) is compared with both sequential orders. The pool-call subsequence of every schedule is replayed on the Coq small-step model (labels and pending set must agree).",
        "exhaustive": {"quick": True, "thorough": True},
        "trusted_base": ["atomicity of a single state.Get / state.Set (mutex in LevelDBState); the Go memory model and pre-emption inside a store call are not modelled"],
        "assumptions": ["pairs covered in this round: operation result x {plain message, operation-producing message}; approve-participation, finish-reinit and state reset against the poller are not yet enumerated"],
    },
    "C01": {
        "props": "Props/C01.v", "scenarios": ["c01"],
        "rule": "real kyber key sets for (n,t) in {(2,2),(3,2),(4,3),(5,2)} [thorough: ten configurations up to (9,5)]: for every signer subset of size >= t (at most 40 per configuration, seeded) and 3 (8) arrival orders, the REAL reconstructThresholdSignature (hook) on a crafted signing-phase round: every signature must verify with prysm under the group key over the proposed payload and be byte-identical across subsets; t-1 signers, a corrupt share and a share of a foreign key must be refused. The same shares are combined in Z_r by the extracted Coq Lagrange function and compared with kyber's group secret. Plus real ceremonies (3 nodes + 3 airgapped machines, and 5+5 with t=2): two batches answered by a seeded t-subset, every node's stored signatures verified and compared.",
        "exhaustive": {"quick": False, "thorough": False}, "trusted_base": ["BLS12-381 arithmetic, pairing, hash-to-curve, ECIES and the Pedersen DKG bookkeeping are kyber's; prysm/blst is the independent verifier; the theorems are over an arbitrary field and module (MathComp) - that kyber's scalars form a field and its groups are modules over it is the algebraic contract, exercised on every run", "Z_r arithmetic of Crypto/Zr.v (extended Euclid, Horner) is executable and unproved; its results are compared with kyber's scalars on every run", "dealers' secret polynomials are read through the verif hook (dkg.VerifInstance)"], "assumptions": [],
    },
    "C02": {
        "props": "Props/C02.v", "scenarios": ["c02"],
        "rule": "real ceremonies with real airgapped machines and hot nodes for (n,t) in {(2,2),(3,2),(4,3),(5,2)} x 2 delivery orders [thorough: 7 configurations x 4 orders]: every machine's share must lie on its public polynomial (s_i*G = P(i+1)), all public polynomials equal with exactly t commitments, the constant term = commitment of the sum of the dealers' secrets = the key every node recorded, every hot node retains that polynomial, t-1 shares are refused by tbls.Recover. The extracted Coq Pedersen function recomputes every share from the dealers' secret coefficients (hook) in Z_r and must equal the machine's share scalar. Deviating announcements (other key / other polynomial, any position) are part of the C05 exploration alphabet.",
        "exhaustive": {"quick": False, "thorough": False}, "trusted_base": ["BLS12-381 arithmetic, pairing, hash-to-curve, ECIES and the Pedersen DKG bookkeeping are kyber's; prysm/blst is the independent verifier; the theorems are over an arbitrary field and module (MathComp) - that kyber's scalars form a field and its groups are modules over it is the algebraic contract, exercised on every run", "Z_r arithmetic of Crypto/Zr.v (extended Euclid, Horner) is executable and unproved; its results are compared with kyber's scalars on every run", "dealers' secret polynomials are read through the verif hook (dkg.VerifInstance)"], "assumptions": [],
    },
    "C03": {
        "props": "Props/C03.v", "scenarios": ["c03"],
        "rule": "(A) 300 (3000) seeded proposals mixing explicit payloads (random bytes, empty non-nil, duplicate payloads, duplicate ids, file names with spaces / multibyte / invalid UTF-8 / empty) and baked ranges (anywhere in 0..18632, at the end of the list, empty, out of range, negative), after the JSON round trip every participant sees: requests.TasksToMessages against the extracted Coq expansion (byte-exact ids, files, payloads) and against an independent oracle (explicit = itself, range position = spec root recomputed with crypto/sha256). (B) a real cluster (3 nodes + 3 airgapped machines): 6 (40) batches through proposal -> operation -> airgapped -> partial signatures -> reconstruction -> store -> export; every partial signature is verified with kyber over the proposed bytes, every stored / exported tuple compared with the expansion, stored signatures verified with prysm.",
        "exhaustive": {"quick": False, "thorough": False},
        "trusted_base": ["JSON re-marshalling of the task list (message -> FSM -> operation -> airgapped) is Go's; it is on the exercised path", "baked payloads: see C17"],
        "assumptions": ["'the proposal' is its JSON form on the board (encoding/json replaces invalid UTF-8 in names before anyone sees it)"],
    },
    "C12": {
        "props": "Props/C12.v", "scenarios": ["c12"],
        "rule": "real airgapped machines (n=3, t=2) in a real cluster, operations answered through ProcessOperation (logged, result file written and read back): an uninterrupted twin and a second twin from the same mnemonics (seed determines keys, commitments, shares), then for the victim participant [thorough: every participant]: stop/reopen/replay after each of the four DKG steps, after every step, twice in a row, three times in a row, and the two in-step points (result computed but not logged; logged but result file not written) before each step. Group key, every machine's share value and the published commitments must equal the twin's; the seed must survive the reopen; the log length at every stop is compared with the Coq bookkeeping model.",
        "exhaustive": {"quick": True, "thorough": True},
        "trusted_base": ["the DKG handlers are abstract deterministic functions of (seed, instances, operation) in the model; kyber's determinism given the seeded streams is exercised by the twin runs", "LevelDB durability; ECIES ciphertexts are randomised and therefore not compared"],
        "assumptions": [],
    },
}
