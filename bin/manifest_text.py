# texts of MANIFEST.json per property
COMMON_NOTE = (" Trusted base: Coq 8.16.1 kernel (vm_compute for reflection, no native_compute), no axioms (Print Assumptions: Closed under the global context for every property theorem); "
               "the generator /verif/gen; OCaml extraction (ExtrOcamlBasic directives only) and the OCaml driver; the Go harness (projection, tokenisation, comparison).")
TEXT = {
 "C17": {
  "technique": "Coq proof (SSZ/SHA-256 model, regenerated hasher programs and baked list) + differential run against GetSigningRoot/ReconstructBakedMessage",
  "level": "Theorems, for every uint64 index and every integer position: the hasher programs regenerated from *_encoded.go compute the consensus-spec hash_tree_root (for any container of fixed-size fields and any 32-byte hash), the model of GetSigningRoot equals compute_signing_root(BLSToExecutionChange(index,key,addr), compute_domain(...)); the regenerated 18 633-line split has 18 632 well-formed, strictly increasing (hence distinct) indices; positions 0..18631 yield exactly that entry's root, every other position is refused, no panic. The model is tied to the code by regeneration (programs, constants, list) and by a byte-exact differential run (all positions in the thorough tier).",
  "note": "SHA-256 is a hand-written FIPS 180-4 model tied to crypto/sha256 only by the differential run; the fastssz Hasher is given its specified meaning; strings.Split/strconv.ParseInt are modelled (Lib/GoStr.v)." + COMMON_NOTE,
 },
 "C05": {
  "technique": "Coq proof over an executable model of fsm.go + actions.go with regenerated tables; exhaustive differential exploration of the implementation's abstract states",
  "level": "Theorems (all histories, all n): a cancelled round stays in its cancelled state whatever arrives (cancel_final, via a generic engine theorem: Do moves along at most three table transitions, and the regenerated tables are closed on cancelled states); a refused request leaves the payload unchanged for every registered callback; an unrouted event touches nothing; tables/callback registration/pool map regenerated and checked by reflection. The 'each participant exactly once, in phase order' part (ready_shape) is decided in this round by the exhaustive exploration + oracle only (labelled partial): every reachable abstract state x every event for n=2,3 agrees with the model and satisfies the shape invariant.",
  "note": "ready_shape is not yet a theorem (partial: exploration to a fixpoint for n<=3, oracle on implementation traces). JSON encoding of dumps and time.Time are outside the model (whole seconds)." + COMMON_NOTE,
 },
 "C06": {
  "technique": "Coq proof of the signing FSM's counting rules + exhaustive differential exploration of signing states",
  "level": "Theorems (all n, t, quorums): a partial signature is accepted only for the batch being signed, only from an awaited quorum member, and raises the confirmed count by exactly one; the validation starts reconstruction iff confirmed >= t (and failures <= n-t) and cancels iff failures > n-t; the regenerated table routes only restart from a finished batch (to idle) and only a proposal from idle. Tied by exhaustive exploration (n=2,3 to a fixpoint) and random sequences n<=7, every case compared with the model.",
  "note": "the composition of these step theorems into a statement over whole histories is by exploration, not yet by induction (partial)." + COMMON_NOTE,
 },
 "C19": {
  "technique": "Coq proof (restore = identity on owned instances; reachable states are loadable or one of six dead states, with refutation witness) + paired live/restored differential walks",
  "level": "Theorems: an instance whose machine owns its state equals the instance rebuilt from its dump, so every next event is answered identically (restore_step); for every history the reached state is loadable unless it is one of six dead states (all_loadable_partial), and the full statement is refuted by a one-decline witness (all_loadable_refuted) - the six states and the two hand-over states are the open findings. Tied by loading every explored abstract state and by paired live/restored walks compared with the model.",
  "note": "JSON round trip effects (nil vs empty) are exercised by the harness, not modelled. Open findings: six unloadable terminal states, two hand-over states." + COMMON_NOTE,
 },
}
TEXT.update({
 "C09": {"technique": "Coq proof on the node model (processMessage) + differential signature-mutation histories on a real node",
  "level": "Theorem (every node state, clock value, message other than the opening proposal, verification on): if the signature is not the registered sender key's signature over exactly the message data, the message is refused with an EMPTY write trace - every round, the pool, the signature store and the board are untouched. The node model is tied to node_service.go by replaying histories (every state of a ceremony x 10 mutation classes) on a real node and comparing full durable snapshots.",
  "note": "reinit_dkg and the opening proposal are exempt by the statement. A restore that panics is excluded (C18/C19)." + COMMON_NOTE},
 "C10": {"technique": "Coq proof on the node model (after the impersonation fix) + differential impersonation / replay histories",
  "level": "Partial theorem: every accepted FSM-bound message verified under the key registered for its sender and names the participant registered for that sender (holds after fix 8f9441e). The 'round and step' half of the property is refuted on the tree: the signature covers the payload only; cross-round and cross-event replays are accepted (open findings, reproduced by the harness on every run).",
  "note": "open findings C10-cross-round-replay, C10-cross-event-replay." + COMMON_NOTE},
 "C15": {"technique": "Coq proof on the node model (executeOperation) + differential result-mutation histories",
  "level": "Theorem: an accepted result is a result of a pending (visible) operation whose type and payload bytes came back unchanged, and the board receives exactly the result's messages in order, attributed to the node, followed only by the two retiring pool writes. Tied by real-node histories (9 result variants + double submission after every operation-producing prefix).",
  "note": "'no longer pending afterwards' and the JSON file round trip are checked by the harness only in this round (partial)." + COMMON_NOTE},
 "C18": {"technique": "Coq proof on the node model (refused message leaves the state store untouched) + hostile-input histories with recover()",
  "level": "Partial theorem: a refused board message writes nothing to rounds/operations/tombstones/signatures unless the round was in a cancelled signing state (lazy restart). Crash-freedom is decided by the harness: ~80 hostile messages x positions with recover(); any panic or durable change on refusal is a violation.",
  "note": "airgapped operation files and HTTP bodies are not covered in this round; byte-level fuzzing of decoders not built." + COMMON_NOTE},
})
TEXT["C08"] = {"technique": "Coq proof of the frame property on the node model + differential interleaving / restart / duplicate / reinit / Poll-replay histories",
  "level": "Theorem (frame): handling a board message of round r leaves the dump and signature store of every other round untouched, for every node state and outcome. The 'function of the sub-log' statement is composed by the harness: interleavings with another round, restarts, duplicates, junk, reinit variants and a replay through the real Poll loop all reach the reference projection, and every history agrees with the model.",
  "note": "partial: locality (the outcome for round r depends only on r's part of the state) is not yet a theorem. The reinit_dkg exception of the pinned tree was repaired (fix 6265d18)." + COMMON_NOTE}
TEXT["C16"] = {"technique": "Coq proof (invariant over all schedules of the regenerated step list of send; sequential and read theorems) + concurrent goroutine/process runs on the real file storage",
  "level": "Theorems: for ANY number of writers and ANY schedule of the atomic steps Lock;Seek;Count;Marshal;Write;Unlock (the list regenerated from fileStorage.go and proved equal to this one), offsets are positions without gaps or repeats and earlier entries never change; sequential sends keep order and appear once; reading from k returns exactly positions k.. minus ignored entries - for every line length up to the reader's limit (both scanner limits regenerated and proved equal to 1 MiB after fix 8ab9ea1). Tied by concurrent runs (goroutines and OS processes) whose observed order is replayed on the model.",
  "note": "flock and O_APPEND atomicity are the operating system's (partial: not modelled below the call level)." + COMMON_NOTE}
TEXT["C13"] = {"technique": "Coq refutation witness + partial theorems on the node model with crash semantics; exhaustive crash-point enumeration on a real node",
  "level": "The full statement is REFUTED in Coq (witness: proposal killed between SaveFSM and PutOperation; the operation is never offered again) and reproduced on the real node: open finding. Partial theorems: a crash before the handler's first round write leaves all rounds untouched; a clean restart changes nothing durable (holds after fix 0030bbe). Every durable write of every message of a ceremony is a crash point in the harness (exhaustive for the history), each compared with the model's crash semantics.",
  "note": "LevelDB / file-system durability trusted; API-request crash points and multiple crashes not enumerated in this round." + COMMON_NOTE}
NOT_APPLICABLE = {}
