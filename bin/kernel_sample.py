"""Kernel sample (thorough tier): a sample of the differential cases is evaluated INSIDE Coq
(`vm_compute` in `coqc`, no extraction, no OCaml driver) and compared with what the extracted model
printed for the same case.  Only case kinds whose input is a handful of numbers are translated:
root, pos (C17), lag, ped (C01/C02), c11deal (C11), c18air (C18), c04rounds, c04lock (C04), rmw (C14),
filename, airreinit (C18 / C11), export / exportraw (C03), resetpoll (C14); air (C12), rehash is too large for the kernel and is skipped."""
import os, random, subprocess, re


def nlist(hexs):
    return "[" + "; ".join(str(int(hexs[i:i + 2], 16)) for i in range(0, len(hexs), 2)) + "]%N"


def zlit(s):
    return "(%s)%%Z" % s


def translate(case, model):
    """returns a Coq boolean expression that must evaluate to true, or None if not supported"""
    f = case.split()
    m = model.split()
    if not f:
        return None
    k = f[0]
    try:
        if k == "root" and len(f) >= 2:
            if m[-1] == "ERR":
                return "match model_signing_root %s%%N with None => true | Some _ => false end" % f[1]
            return "match model_signing_root %s%%N with Some r => leqb r %s | None => false end" % (f[1], nlist(m[-1]))
        if k == "pos" and len(f) >= 2:
            if m[2] == "err":
                return "match reconstruct_baked %s with BErr _ => true | _ => false end" % zlit(f[1])
            if m[2] == "panic":
                return "match reconstruct_baked %s with BPanic => true | _ => false end" % zlit(f[1])
            kv = dict(x.split("=", 1) for x in m[3:])
            return ("match reconstruct_baked %s with BOk x => leqb (ms_id x) %s && leqb (ms_file x) %s && leqb (ms_payload x) %s && Bool.eqb (ms_baked x) %s | _ => false end"
                    % (zlit(f[1]), nlist(kv["id"]), nlist(kv["file"]), nlist(kv["payload"]), "true" if kv["baked"] == "1" else "false"))
        if k == "lag":
            pts = f[1:]
            pairs = "; ".join("(%s, %s)" % (pts[i], pts[i + 1]) for i in range(0, len(pts) - 1, 2))
            return "Z.eqb (lagrange0_z [%s]%%Z) %s" % (pairs, zlit(m[1]))
        if k == "ped":
            nd, t = int(f[1]), int(f[2])
            cs = f[3:3 + nd * t]
            i = f[3 + nd * t + 1]
            dealers = "; ".join("[" + "; ".join(cs[j * t:(j + 1) * t]) + "]" for j in range(nd))
            share = m[1].split("=")[1]
            secret = m[2].split("=")[1]
            return "Z.eqb (share_z [%s]%%Z %s) %s && Z.eqb (group_secret_z [%s]%%Z) %s" % (dealers, zlit(i), zlit(share), dealers, zlit(secret))
        if k == "c11deal":
            t, i, fault = f[1], f[2], f[3]
            nb = int(f[4])
            bc = f[5:5 + nb]
            nd = int(f[5 + nb])
            dealt = f[6 + nb:6 + nb + nd]
            share = f[6 + nb + nd]
            fl = {"undecryptable": "FUndecryptable", "malformed": "FMalformed"}.get(fault, "FNone")
            exp = "true" if m[1] == "accept" else "false"
            return ("Bool.eqb (accepts %s [%s]%%Z {| dl_fault := %s; dl_commits := [%s]%%Z; dl_share := %s |} %s) %s"
                    % (t, "; ".join(bc), fl, "; ".join(dealt), zlit(share), zlit(i), exp))
        if k == "c18air":
            kind = {"commits": "KCommits", "signing": "KSigning"}.get(f[1], "KLater")
            cls = {"ok": "AOk", "error-result": "AErrorResult", "rejected": "ARejected"}[m[1]]
            return ("match aclass_of %s %s %s, %s with AOk, AOk | AErrorResult, AErrorResult | ARejected, ARejected => true | _, _ => false end"
                    % (kind, "true" if f[2] == "1" else "false", "true" if f[3] == "1" else "false", cls))
        if k == "c04lock":
            return "Bool.eqb tick_waits_during_command %s" % ("true" if m[1] == "waits=true" else "false")
        if k == "c04gap":
            return "Bool.eqb gap_saves_without_password %s" % ("true" if m[1].endswith("=true") else "false")
        if k == "c04rounds":
            t1, m1, t2, m2 = f[1], f[2], f[3], f[4]
            def cfgterm(i, t, ms):
                return "{| rc_id := %d; rc_t := %s; rc_machines := [%s] |}" % (i, t, "; ".join(ms.split(",")))
            def bits(s):
                return "[" + "; ".join("true" if c == "1" else "false" for c in s) + "]"
            kv = dict(x.split("=", 1) for x in m[1:])
            c1, c2 = cfgterm(1, t1, m1), cfgterm(2, t2, m2)
            return ("lbeqb (coeffs_coincide %s %s) %s && Bool.eqb (group_coincides %s %s) %s && lbeqb (shares_coincide %s %s) %s"
                    % (c1, c2, bits(kv["coeffs"]), c1, c2, "true" if kv["group"] == "1" else "false", c1, c2, bits(kv["shares"])))
        if k == "filename" and len(f) >= 5:
            kinds = {"invite": "FInvite", "commits": "FCommits", "deals": "FDeals", "responses": "FResponses", "master": "FMaster",
                     "sign": "FSign", "collected": "FCollected", "reinit": "FReinit"}
            hx = lambda x: "[]" if x == "-" else nlist(x)
            b = "None" if f[4] == "none" else "(Some %s)" % hx(f[4])
            return "leqb (file_name %s %s %s %s) %s" % (kinds.get(f[1], "FUnknown"), hx(f[2]), hx(f[3]), b, hx(m[1]) if len(m) > 1 else "[]")
        if k in ("export", "exportraw"):
            if k == "export":
                batch, n = f[1], int(f[2])
                v = f[3:]
                if len(v) != 6 * n:
                    return None
                sigs = "; ".join("{| rs_file := %s; rs_batch := %s; rs_msgid := %s; rs_payload := %s; rs_sig := %s; rs_user := %s; rs_round := 0 |}"
                                 % (v[6 * i + 4], v[6 * i], v[6 * i + 1], v[6 * i + 2], v[6 * i + 3], v[6 * i + 5]) for i in range(n))
                term = "(match tget' (fold_left add_sig [%s]%%N []) %s%%N with Some b => export_batch b | None => Some [] end)" % (sigs, batch)
            else:
                n = int(f[1]); pos = 2; slots = []
                for _ in range(n):
                    sid, cnt = f[pos], int(f[pos + 1]); pos += 2
                    es = []
                    for _ in range(cnt):
                        es.append("{| rs_file := %s; rs_batch := 0; rs_msgid := %s; rs_payload := %s; rs_sig := %s; rs_user := 0; rs_round := 0 |}"
                                  % (f[pos + 2], sid, f[pos], f[pos + 1])); pos += 3
                    slots.append("(%s, [%s])" % (sid, "; ".join(es)))
                term = "(export_batch [%s]%%N)" % "; ".join(slots)
            if len(m) >= 2 and m[1] == "refused":
                return "match %s with None => true | Some _ => false end" % term
            rows = [r.split(":") for r in (m[1].split(",") if len(m) > 1 else [])]
            exp = "; ".join("(%s, {| ex_payload := %s; ex_sig := %s; ex_file := %s |})" % (r[0], r[1], r[2], r[3]) for r in rows)
            return "match %s with Some out => exp_eqb (exp_sort out) [%s]%%N | None => false end" % (term, exp)
        if k == "resetpoll" and len(f) >= 4:
            n, kk, pp = int(f[1]), int(f[2]), int(f[3])
            kv = dict(x.split("=", 1) for x in m[1:])
            return ("(let w := reset_after %d %d %d %d in Nat.eqb (d_off (w_new w)) %s && Bool.eqb (replayed_all %d w) %s)"
                    % (n, kk, pp, 4 * n + 8, kv["offset"], n, "true" if kv["replayed"] == "all" else "false"))
        if k == "airreinit" and len(f) >= 3:
            outer, n = f[1], int(f[2])
            v = f[3:]
            kinds = {"commits": "IkCommits", "deals": "IkDeals", "responses": "IkResponses"}
            ops = "; ".join("{| ri_kind := %s; ri_round := %s; ri_ok := %s |}" % (kinds.get(v[3 * i], "IkMaster"), v[3 * i + 1], "true" if v[3 * i + 2] == "1" else "false") for i in range(n))
            shares = m[2].split("=", 1)[1]
            exp = "[" + "; ".join(x for x in shares.split(",") if x) + "]"
            return ("(let r := handle_reinit %s fresh_rmach [%s] in Bool.eqb (snd r) %s && lneqb (nat_sort (rm_shares (fst r))) %s)"
                    % (outer, ops, "true" if m[1] == "processed" else "false", exp))
        if k == "rmw" and len(f) == 2:
            sc = "[" + "; ".join("true" if c == "A" else "false" for c in f[1]) + "]"
            pend = m[1].split("=", 1)[1]
            exp = "[" + "; ".join(x for x in pend.split(",") if x) + "]"
            return "lneqb (pending_after %s) %s" % (sc, exp)
    except (IndexError, KeyError, ValueError):
        return None
    return None


HEADER = """From Coq Require Import String List NArith ZArith Bool.
Require Import Lib.GoStr Ssz.Rotation Crypto.Zr Crypto.DealCheck Air.Reject Air.Terms Air.Lock Node.Serial.
Require Import Fsm.EngineDefs Node.Types Node.Process Node.Export Node.FileName Node.ResetPoll Air.Reinit.
Import ListNotations.
Fixpoint nat_insert (x : nat) (l : list nat) : list nat :=
  match l with [] => [x] | y :: r => if Nat.leb x y then x :: l else y :: nat_insert x r end.
Definition nat_sort (l : list nat) : list nat := fold_right nat_insert [] l.
Fixpoint exp_insert (x : N * exported) (l : list (N * exported)) : list (N * exported) :=
  match l with [] => [x] | y :: r => if N.leb (fst x) (fst y) then x :: l else y :: exp_insert x r end.
Definition exp_sort (l : list (N * exported)) : list (N * exported) := fold_right exp_insert [] l.
Fixpoint exp_eqb (a b : list (N * exported)) : bool :=
  match a, b with
  | [], [] => true
  | (i, x) :: a', (j, y) :: b' => N.eqb i j && N.eqb (ex_payload x) (ex_payload y) && N.eqb (ex_sig x) (ex_sig y) && N.eqb (ex_file x) (ex_file y) && exp_eqb a' b'
  | _, _ => false
  end.
Fixpoint leqb (a b : list N) : bool :=
  match a, b with [], [] => true | x :: a', y :: b' => N.eqb x y && leqb a' b' | _, _ => false end.
Fixpoint lbeqb (a b : list bool) : bool :=
  match a, b with [], [] => true | x :: a', y :: b' => Bool.eqb x y && lbeqb a' b' | _, _ => false end.
Fixpoint lneqb (a b : list nat) : bool :=
  match a, b with [], [] => true | x :: a', y :: b' => Nat.eqb x y && lneqb a' b' | _, _ => false end.
"""


def run(coq_dir, cases_path, model_path, work, n=120, seed=1, timeout=900):
    cases = open(cases_path).read().splitlines()
    model = open(model_path).read().splitlines()
    idx = [i for i in range(min(len(cases), len(model))) if translate(cases[i], model[i]) is not None]
    random.Random(seed).shuffle(idx)
    # SSZ roots cost seconds each in the kernel: at most 6 of them
    roots = [i for i in idx if cases[i].startswith("root ")][:6]
    # every translatable kind is represented: round-robin over the kinds, in shuffled order
    bykind = {}
    for i in idx:
        if not cases[i].startswith("root "):
            bykind.setdefault(cases[i].split()[0], []).append(i)
    others = []
    while len(others) < n and any(bykind.values()):
        for kk in sorted(bykind):
            if bykind[kk] and len(others) < n:
                others.append(bykind[kk].pop(0))
    idx = roots + others
    if not idx:
        return {"evaluated": 0, "agree": 0, "skipped": "no translatable case kinds"}
    path = os.path.join(work, "kernel_sample.v")
    with open(path, "w") as f:
        f.write(HEADER)
        f.write("Definition checks : list bool := [\n  " + ";\n  ".join(translate(cases[i], model[i]) for i in idx) + "].\n")
        f.write("Definition result := Eval vm_compute in checks.\nPrint result.\n")
    r = subprocess.run(["coqc", "-Q", coq_dir, "", path], capture_output=True, text=True, timeout=timeout, cwd=work)
    out = r.stdout + r.stderr
    if r.returncode != 0:
        return {"evaluated": len(idx), "agree": 0, "error": out[-600:]}
    vals = re.findall(r"\b(true|false)\b", out.split("result =", 1)[1].split(":", 1)[0]) if "result =" in out else []
    bad = [cases[idx[j]] for j, v in enumerate(vals) if v == "false"]
    kinds = {}
    for i in idx:
        kinds[cases[i].split()[0]] = kinds.get(cases[i].split()[0], 0) + 1
    return {"evaluated": len(idx), "agree": len(vals) - len(bad), "disagreements": bad[:5], "kinds": kinds,
            "how": "Definition checks := [...]; Eval vm_compute in checks, by coqc on the compiled development (no extraction, no OCaml)"}
